#!/usr/bin/env python3
"""Run turnvc on a mutated copy of one /repo file laid over the working tree (packages.Config.Overlay).
usage: mutate.py <relfile> <old-text> <new-text> -- <turnvc args...>
Nothing is written into /repo."""
import sys, os, json, subprocess, tempfile
i = sys.argv.index('--')
rel, old, new = sys.argv[1:4]
src = open(os.path.join('/repo', rel)).read()
if src.count(old) != 1 and not (os.environ.get('MUTATE_ALL') and src.count(old) > 1):
    print("mutate: old text occurs %d times" % src.count(old)); sys.exit(3)
d = tempfile.mkdtemp(prefix='turnvc-mut-')
mf = os.path.join(d, os.path.basename(rel))
open(mf, 'w').write(src.replace(old, new))
ov = os.path.join(d, 'overlay.json')
json.dump({os.path.join('/repo', rel): mf}, open(ov, 'w'))
args = sys.argv[i+1:]
r = subprocess.run(['/verif/bin/turnvc', args[0], '-overlay', ov, '-no-evidence'] + args[1:] if args[0] == 'check' else ['/verif/bin/turnvc', args[0], '-overlay', ov] + args[1:])
import shutil; shutil.rmtree(d)
sys.exit(r.returncode)
