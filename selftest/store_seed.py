#!/usr/bin/env python3
"""store_seed.py <worktree-id> <seed-name> <demo-file> <dest-path-in-repo> <TestName> <go-pkg> <breaks> <needs>
Confirms the demo both ways in the sub-agent's worktree /tmp/seed/<worktree-id> (fails with the change, passes after
`git apply -R`), stores the seed under /verif/seeded/<seed-name>, then runs the property's check on it (run_seeded)."""
import json, os, shutil, subprocess, sys
wid, name, demo, dest, test, pkg, breaks, needs = sys.argv[1:9]
wt = '/tmp/seed/' + wid
env = dict(os.environ, GOFLAGS='-mod=mod', GOPROXY='off')
def run(cmd, **kw):
    return subprocess.run(cmd, shell=True, cwd=wt, env=env, capture_output=True, text=True, **kw)
t = "go test -vet=off -count=1 -run '^%s$' %s" % (test, pkg)
with_change = run(t)
run('git apply -R _seed/patch.diff')
without = run(t)
run('git apply _seed/patch.diff')
fails = with_change.returncode != 0
passes = without.returncode == 0
print('demo with change:', 'FAIL' if fails else 'PASS (!)', '| without:', 'PASS' if passes else 'FAIL (!)')
if not (fails and passes):
    print(with_change.stdout[-600:], without.stdout[-600:]); sys.exit(1)
d = '/verif/seeded/' + name
os.makedirs(d, exist_ok=True)
for f in ['patch.diff', 'notes.md', demo]:
    shutil.copy(wt + '/_seed/' + f, d + '/' + f)
open(d + '/testname.txt', 'w').write(test + '\n')
meta = {"property": wid[:3], "breaks": breaks, "needs": needs, "test": test, "demo": demo + " -> " + dest,
        "source": "second round: written by an independent sub-agent that saw only the property text (with the anchor file list) and a scratch worktree of /repo (no access to /verif, contract comment files removed)",
        "confirmed_by_me": {"demo_with_change": "FAIL", "demo_without_change": "PASS (git apply -R patch.diff)",
                            "full_suite_with_change": "reported ok by the sub-agent (go test -vet=off -count=1 -skip TestClientWithSTUN ./...)",
                            "commands": t + " in the sub-agent's worktree with and without the change"},
        "check_history": "TBD"}
json.dump(meta, open(d + '/meta.json', 'w'), indent=1)
r = subprocess.run(['python3', '/verif/selftest/run_seeded.py', name], capture_output=True, text=True)
print(r.stdout[-700:])
m = json.load(open(d + '/meta.json'))
m['check_history'] = 'caught at first run' if '\texit 1\t' in r.stdout else 'MISSED at first run: ' + r.stdout.strip()[-200:]
json.dump(m, open(d + '/meta.json', 'w'), indent=1)
