#!/usr/bin/env python3
"""Apply each seeded change in /verif/seeded/*/patch.diff to /repo (git apply), run the check of the property it breaks
(without writing evidence), undo the change (git apply -R). Prints one line per seed."""
import json, glob, os, subprocess, sys, time
only = sys.argv[1:]
rows = []
for d in sorted(glob.glob('/verif/seeded/*')):
    name = os.path.basename(d)
    if only and not any(o in name for o in only):
        continue
    meta = json.load(open(d + '/meta.json'))
    patch = d + '/patch.diff'
    if subprocess.run(['git', '-C', '/repo', 'diff', '--quiet']).returncode != 0:
        print("refusing: /repo has uncommitted changes"); sys.exit(2)
    r = subprocess.run(['git', '-C', '/repo', 'apply', patch], capture_output=True, text=True)
    if r.returncode != 0:
        rows.append((name, meta['property'], 'PATCH-DOES-NOT-APPLY', r.stderr.strip()[:100])); continue
    t0 = time.time()
    try:
        c = subprocess.run(['/verif/bin/turnvc', 'check', '-no-evidence', meta['property']], capture_output=True, text=True, timeout=1500)
        out = c.stdout
        first = [l for l in out.split('\n') if l.startswith('VIOLATION') or l.startswith('UNDECIDED') or l.startswith('UNSUPPORTED') or l.startswith('  failed')]
        rows.append((name, meta['property'], 'exit %d' % c.returncode, ' | '.join(x[:150] for x in first[:3]), '%.0fs' % (time.time() - t0)))
    finally:
        subprocess.run(['git', '-C', '/repo', 'apply', '-R', patch])
for r in rows:
    print('\t'.join(r))
