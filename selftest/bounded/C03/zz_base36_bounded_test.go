package server

// Bounded stand-in (NOT a proof) for the two functions the contracts have to trust because math/big is outside the
// verifier's reach: decodeBase36(encodeBase36(x)) returns x without its leading zero bytes, for every byte string of
// length 0..2 (65 793 strings) and 20 000 pseudo-random strings of length 3..36 (fixed seed), and the encoding uses
// only the base-36 alphabet. Injected into package server by `go test -overlay` in the thorough tier of C03.

import (
	"bytes"
	"encoding/json"
	"math/rand"
	"os"
	"strings"
	"testing"
)

func zzTrimZeros(b []byte) []byte {
	for len(b) > 0 && b[0] == 0 {
		b = b[1:]
	}

	return b
}

func TestZZBase36Bounded(t *testing.T) {
	cases := 0
	var failing []byte
	check := func(x []byte) {
		if failing != nil {
			return
		}
		cases++
		enc := encodeBase36(x)
		if strings.Trim(enc, base36Alphabet) != "" {
			failing = append([]byte{}, x...)

			return
		}
		dec := decodeBase36(enc)
		want := zzTrimZeros(x)
		if len(x) > 0 && len(want) == 0 {
			want = []byte{0} // an all-zero input encodes as "0", which decodes to one zero byte
		}
		if dec == nil || !bytes.Equal(zzTrimZeros(dec), zzTrimZeros(want)) {
			failing = append([]byte{}, x...)
		}
	}
	check([]byte{})
	for a := 0; a < 256; a++ {
		check([]byte{byte(a)})
		for b := 0; b < 256; b++ {
			check([]byte{byte(a), byte(b)})
		}
	}
	rng := rand.New(rand.NewSource(1)) //nolint:gosec
	for i := 0; i < 20000; i++ {
		x := make([]byte, 3+rng.Intn(34))
		rng.Read(x) //nolint
		if i%7 == 0 {
			x[0] = 0
		}
		check(x)
	}
	out := map[string]any{"cases": cases, "failing_input": failing}
	if p := os.Getenv("TURNVC_BOUNDED_OUT"); p != "" {
		b, _ := json.Marshal(out)
		_ = os.WriteFile(p, b, 0o600)
	}
	if failing != nil {
		t.Fatalf("decodeBase36(encodeBase36(%v)) does not give the input back", failing)
	}
}
