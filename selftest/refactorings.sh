set -u
cd /verif
r() { # name file old new -- args
  name=$1; shift
  out=$(python3 selftest/mutate.py "$@" 2>&1 | grep -v "discharged\|note:" | grep -c "failed\|undecided\|UNSUPPORTED\|ENGINE\|mutate: old text")
  echo "$name: problems=$out"
}
# 1. equivalent padding arithmetic
r pad-equiv internal/proto/stun_conn.go 'if paddingOverflow := (datagramSize + channelDataPadding) % channelDataPadding; paddingOverflow != 0 {
			datagramSize = (datagramSize + channelDataPadding) - paddingOverflow
		}' 'datagramSize = (datagramSize + 3) / 4 * 4' -- verify proto.consumeSingleTURNFrame
# 2. rename a local
MUTATE_ALL=1 r rename-local internal/proto/stun_conn.go 'paddingOverflow' 'rem' -- verify proto.consumeSingleTURNFrame
# 3. early-return restructuring in createPermission (explicit unlock on every path instead of defer)
r explicit-unlock internal/client/udp_conn.go '	perm.mutex.Lock()
	defer perm.mutex.Unlock()

	if perm.state() == permStateIdle {
		// Punch a hole! (this would block a bit..)
		if err := a.CreatePermissions(addr); err != nil {
			// The caller retries a stale nonce with the same permission: keep it registered
			if !errors.Is(err, errTryAgain) {
				a.permMap.delete(addr)
			}

			return err
		}
		perm.setState(permStatePermitted)
	}

	return nil' '	perm.mutex.Lock()
	if perm.state() != permStateIdle {
		perm.mutex.Unlock()

		return nil
	}
	err := a.CreatePermissions(addr)
	if err != nil {
		if !errors.Is(err, errTryAgain) {
			a.permMap.delete(addr)
		}
		perm.mutex.Unlock()

		return err
	}
	perm.setState(permStatePermitted)
	perm.mutex.Unlock()

	return nil' -- verify '(*client.allocation).createPermission'
# 4. swap two independent statements in AddPermission
r swap-stmts internal/allocation/allocation.go '	perms.allocation = a
	a.permissionsLock.Lock()
	a.permissions[fingerprint] = perms
	a.permissionsLock.Unlock()' '	a.permissionsLock.Lock()
	perms.allocation = a
	a.permissions[fingerprint] = perms
	a.permissionsLock.Unlock()' -- verify '(*allocation.Allocation).AddPermission'
# 5. interval clamp written with min
r clamp-min internal/client/transaction.go '		t.interval *= 2
		if t.interval > maxRtxInterval {
			t.interval = maxRtxInterval
		}' '		t.interval = min(2*t.interval, maxRtxInterval)' -- verify '(*client.Transaction).StartRtxTimer$1'
# 6. Manager.Close collects with errors.Join-like loop variable rename
r close-rename internal/allocation/allocation_manager.go 'var firstErr error
	for _, a := range m.allocations {
		if err := a.Close(); err != nil && firstErr == nil {
			firstErr = err
		}
	}

	return firstErr' 'var result error
	for _, alloc := range m.allocations {
		err := alloc.Close()
		if result == nil {
			result = err
		}
	}

	return result' -- verify '(*allocation.Manager).Close'
# 7. extract helper in handleSTUNMessage? (skip)  8. lifetime arithmetic equivalent
r find-first internal/client/transaction.go '	tr, ok := m.trMap[key]

	return tr, ok' '	if tr, ok := m.trMap[key]; ok {
		return tr, true
	}

	return nil, false' -- verify '(*client.TransactionMap).Find'
