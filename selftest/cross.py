#!/usr/bin/env python3
"""cross.py <seed-name>: apply one seeded change and run EVERY claimed property's check on it (no evidence written), to see
which checks other than the intended one report it. Reverts the change afterwards."""
import json, os, subprocess, sys
name = sys.argv[1]
d = '/verif/seeded/' + name
meta = json.load(open(d + '/meta.json'))
man = json.load(open('/verif/MANIFEST.json'))
props = [c['property_id'] for c in man['checks']]
if subprocess.run(['git', '-C', '/repo', 'diff', '--quiet']).returncode != 0:
    print("refusing: /repo has uncommitted changes"); sys.exit(2)
subprocess.run(['git', '-C', '/repo', 'apply', d + '/patch.diff'], check=True)
res = {}
try:
    for p in props:
        c = subprocess.run(['/verif/bin/turnvc', 'check', p, '-no-evidence'], capture_output=True, text=True, timeout=1500)
        res[p] = c.returncode
finally:
    subprocess.run(['git', '-C', '/repo', 'apply', '-R', d + '/patch.diff'])
print(name, 'breaks', meta['property'], '->', ' '.join('%s:%d' % (p, res[p]) for p in props if res[p] != 0) or 'none')
