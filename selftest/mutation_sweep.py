#!/usr/bin/env python3
"""mutation_sweep.py <relfile> [func-regex]
Statement-deletion (and a few operator) mutants of every function under contract in one /repo file, each run through
`turnvc verify <func>` with a packages overlay (/repo is not modified). Prints the SURVIVORS: mutants that compile and
for which every obligation of the enclosing function still discharges. A survivor is not necessarily a property
violation (the deleted statement may be logging, or be covered by a caller's obligation); it is a place to look at."""
import json, os, re, subprocess, sys, tempfile, concurrent.futures as cf

rel = sys.argv[1]
only = re.compile(sys.argv[2]) if len(sys.argv) > 2 else None
path = '/repo/' + rel
src = open(path).read().split('\n')
pkg = next(l.split()[1] for l in src if l.startswith('package '))
contracts = subprocess.run(['/verif/bin/turnvc', 'list'], capture_output=True, text=True).stdout
have = set(l.split()[0] for l in contracts.split('\n') if l.strip())

def fname(i):
    # enclosing function of line i
    for j in range(i, -1, -1):
        m = re.match(r'^func (\((\w+) (\*?)(\w+)\) )?(\w+)\(', src[j])
        if m:
            end = next((k for k in range(j, len(src)) if src[k] == '}'), len(src))
            if i > end:
                return None
            if m.group(1):
                return '(%s%s.%s).%s' % (m.group(3), pkg, m.group(4), m.group(5))
            return '%s.%s' % (pkg, m.group(5))
    return None

SKIP = re.compile(r'^\s*(//|return\b|defer\b|if\b|for\b|switch\b|case\b|default:|else\b|\}|\{|var\b|go\b|select\b|break|continue|fallthrough)|\.log\.|\.Log\.|Debugf|Tracef|Warnf|Errorf\(|Infof')
muts = []
for i, l in enumerate(src):
    if not l.startswith('\t') or SKIP.search(l) or l.strip() == '' or l.rstrip().endswith(('{', ',', '(', '&&', '||')):
        continue
    fn = fname(i)
    if fn is None or not (fn in have or any(h.startswith(fn + '$') for h in have)) or (only and not only.search(fn)):
        continue
    s = l.strip()
    if re.match(r'^[\w.\[\]\*]+(, [\w.\[\]\*]+)* (:=|=) ', s):
        continue  # deleting a definition rarely compiles; assignments handled by operator mutants below
    if s.endswith(')') or re.match(r'^[\w.\[\]]+(\+\+|--)$', s) or re.match(r'^[\w.\[\]]+ [-+*]?= ', s) or s.startswith('delete('):
        muts.append((i, 'delete', None))
for i, l in enumerate(src):
    fn = fname(i) if l.startswith('\t') else None
    if fn is None or not (fn in have or any(h.startswith(fn + '$') for h in have)) or (only and not only.search(fn)) or '.log.' in l or l.strip().startswith('//'):
        continue
    for a, b in ((' < ', ' <= '), (' <= ', ' < '), (' > ', ' >= '), (' >= ', ' > '), (' == ', ' != '), (' != ', ' == '), (' && ', ' || '), (' || ', ' && ')):
        if a in l and 'err != nil' not in l and 'err == nil' not in l:
            muts.append((i, 'op', (a, b)))
            break

def run(m):
    i, kind, arg = m
    fn = fname(i)
    new = list(src)
    if kind == 'delete':
        new[i] = ''
    else:
        new[i] = new[i].replace(arg[0], arg[1], 1)
    d = tempfile.mkdtemp(prefix='turnvc-sweep-')
    try:
        f = os.path.join(d, 'm.go')
        open(f, 'w').write('\n'.join(new))
        ov = os.path.join(d, 'ov.json')
        json.dump({path: f}, open(ov, 'w'))
        targets = ([fn] if fn in have else []) + [h for h in have if h.startswith(fn + '$')]
        base = fn.split('.')[-1]
        for h in sorted(have):
            if h in targets or not (h.startswith(pkg + '.') or ('(' + pkg + '.') in h or ('(*' + pkg + '.') in h):
                continue
            # same-package callers: functions whose source mentions the mutated function's name
            hb = h.split('.')[-1].split('$')[0]
            m2 = re.search(r'^func (\([^)]*\) )?' + re.escape(hb) + r'\(', '\n'.join(src), re.M)
            if m2:
                st0 = m2.start(); en0 = '\n'.join(src).find('\n}\n', st0)
                if re.search(r'\b' + re.escape(base) + r'\(', '\n'.join(src)[st0:en0]) and hb != base:
                    targets.append(h)
        r = subprocess.run(['/verif/bin/turnvc', 'verify', '-overlay', ov] + targets[:8], capture_output=True, text=True, timeout=1500)
        out = r.stdout + r.stderr
        if 'load error' in out or 'ENGINE-ERROR' in out or 'no such function' in out:
            return (i, kind, fn, 'nocompile')
        if re.search(r'^\s+(failed|undecided)\s', out, re.M) or 'UNSUPPORTED' in out:
            return (i, kind, fn, 'killed')
        return (i, kind, fn, 'SURVIVED')
    except subprocess.TimeoutExpired:
        return (i, kind, fn, 'timeout')
    finally:
        subprocess.run(['rm', '-rf', d])

res = []
with cf.ThreadPoolExecutor(max_workers=6) as ex:
    for r in ex.map(run, muts):
        res.append(r)
k = sum(1 for r in res if r[3] == 'killed'); s = [r for r in res if r[3] == 'SURVIVED']; nc = sum(1 for r in res if r[3] == 'nocompile')
print('%s: %d mutants, %d killed, %d survived, %d did not compile' % (rel, len(res), k, len(s), nc))
for i, kind, fn, _ in s:
    print('  SURVIVED %s:%d [%s] %s | %s' % (rel, i + 1, kind, fn, src[i].strip()[:110]))
