#!/usr/bin/env python3
"""Generates /verif/MANIFEST.json from the table below (edit here, not the JSON)."""
import json, subprocess

ALL = ["C%02d" % i for i in range(1, 21)]

CLAIMED = {
 "C10": dict(
  text="Deductive proof, for all buffers, all reads and all stream contents, of contracts on the real framer: consumeSingleTURNFrame equals the spec function frameLen/complete on every byte string (exact, prompt, progress, reject); STUNConn.ReadFrom keeps the invariant 'buffer = bytes read but not yet returned' against a ghost byte stream, returns exactly the frame that starts at the consumed stream position, copies it to the caller and reads only while the buffer holds no complete frame; the client's ConnectionBind reply parsing consumes exactly one STUN message whatever the segmentation. The contracts mention the concatenated stream only, never the cut points.",
  ref="9 (C10)",
  note="Assumed: contracts of net.Conn.Read / io.ReadFull / stun.IsMessage / stun.Build / Message.Decode (specs/*.spec); a Read that returns (0,nil) forever is not excluded (A7); the for-all-segmentations corollary is an induction over calls argued in DESIGN.md, each call's step is machine-checked.",
  technique="contract-based deductive verification: WP/VC generation over go/ssa of the working tree, z3/cvc5"),
 "C11": dict(
  text="Deductive proof of functional contracts on the real ChannelData codec (Encode with its padding loop under an inductive invariant and variant, WriteHeader, grow, Decode, IsChannelData, Reset) for every number, every payload length and aliasing of Data with Raw, and of every fixed-size attribute codec in internal/proto (size guard iff, decoded value = big-endian value of the bytes, encoder hands Message.Add exactly type/size/bytes), plus round-trip lemmas over the spec functions.",
  ref="9 (C11)",
  note="Assumed: stun.Message.Get/Add/Contains, stun.CheckSize (specs/stun.spec). XOR-PEER/RELAYED-ADDRESS delegate to pion/stun XORMappedAddress (outside /repo): not proved here. float64 seconds of a whole-second duration are exact (A12).",
  technique="contract-based deductive verification: WP/VC generation over go/ssa of the working tree, z3/cvc5"),
 "C20": dict(
  text="Deductive proof on the three bundled generators (all six Allocate* methods and Validate): for every MinPort<=MaxPort (incl. 65535 and single-port ranges) and every value of the random source the port handed to ListenPacket/Listen lies in [MinPort,MaxPort] (exact uint16 wrap-around arithmetic), Intn's argument is positive, a requested port is passed through unchanged, the socket returned is the one just bound, the advertised address is that socket's local address with IP = RelayAddress, and every error path returns (nil,nil,err) with no socket left open.",
  ref="9 (C20)",
  note="Assumed: transport.Net.ListenPacket / ListenConfig.Listen / ResolveTCPAddr, net.JoinHostPort, strconv.Itoa as uninterpreted functions (specs/net.spec); that a bound port is exclusive is OS behaviour (and SO_REUSEPORT is requested on TCP listeners) - not decided.",
  technique="contract-based deductive verification: WP/VC generation over go/ssa of the working tree, z3/cvc5"),
}

NA_REASON = {p: "engine tier for this property not built yet in this session (see DESIGN.md section 11); will be claimed once its contracts discharge" for p in ALL}

def main():
    commits = subprocess.run(["git", "-C", "/repo", "log", "--format=%h %s"], capture_output=True, text=True).stdout.strip().split("\n")
    hooks = [c.split()[0] for c in commits if c.split(" ", 1)[1].startswith("verif:")]
    checks = []
    for p in ALL:
        if p not in CLAIMED:
            continue
        c = CLAIMED[p]
        checks.append({
            "property_id": p,
            "quick_cmd": "./check %s quick" % p,
            "thorough_cmd": "./check %s thorough" % p,
            "evidence_file": "/verif/evidence/%s.json" % p,
            "engine": "turnvc",
            "level_claimed": {"category": "proof", "text": c["text"], "design_ref": c["ref"]},
            "level_note": c["note"],
            "technique": c["technique"],
        })
    m = {
        "version": 1,
        "setup_cmd": "cd /verif/turnvc && GOFLAGS=-mod=mod GOPROXY=off go build -o /verif/bin/turnvc .",
        "hooks": {
            "guard": "verif",
            "enable": "the guarded files are comment-only contract files <pkg>/verif_contracts.go (//go:build verif); the verifier loads the working tree with -tags=verif; go build -tags verif ./... compiles identical code",
            "baseline_off_cmd": "cd /repo && GOFLAGS=-mod=mod GOPROXY=off go test -vet=off -count=1 -timeout 25m ./...",
            "source_commits": hooks,
            "add_only": True,
        },
        "engines": [{"name": "turnvc", "path": "/verif/turnvc", "serves_properties": sorted(CLAIMED),
                     "kind_free_text": "verification-condition generator over go/ssa of /repo's working tree (path enumeration, calls by contract, exact machine integers, byte heap); contracts as //@ comments in guarded verif_contracts.go files; obligations discharged by z3 5.1.0 (incremental) with quantifier-free relaxation and a z3 4.8.12 / cvc5 1.0.3 portfolio fallback"}],
        "checks": checks,
        "notes": "exit codes of ./check: 0 all obligations discharged; 1 VIOLATION line printed; 2 undecided/unsupported (never on the unchanged tree). Known findings: /verif/known_findings.txt.",
        "not_applicable": [{"property_id": p, "reason": NA_REASON[p]} for p in ALL if p not in CLAIMED],
    }
    json.dump(m, open("/verif/MANIFEST.json", "w"), indent=1)
    print("claimed:", sorted(CLAIMED))

main()
