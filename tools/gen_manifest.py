#!/usr/bin/env python3
"""Generates /verif/MANIFEST.json from the table below (edit here, not the JSON)."""
import json, subprocess

ALL = ["C%02d" % i for i in range(1, 21)]

TECH = "contract-based deductive verification: WP/VC generation over go/ssa of the working tree, z3/cvc5"

CLAIMED = {
 "C01": dict(
  text="Deductive proof, on the real handlers, that every emission toward a peer (Allocation.WriteTo, whose precondition IS the property: a permission for the destination's IP or a channel bound to exactly that address) is reached only after the lookup for the request's own allocation succeeded for the same address value; that the payload/destination handed to the relay socket are the ones decoded; that AddPermission / AddChannelBind / CreateTCPConnection are reachable only after GrantPermission returned nil for that IP (request-local ghost fact) and, for permissions and bindings, after the address-family check; and that the expiry closures remove exactly their own entry (permission key invariant).",
  ref="9 (C01)", note="Assumed: a handler runs atomically w.r.t. timers and other handlers (A1); the operator's handlers are arbitrary deterministic functions; stun XOR address decoding (specs/stun.spec); timers fire (A2). The allocation's well-formedness invariants are preconditions of the handlers (established by the allocation package's own contracts).", technique=TECH),
 "C02": dict(
  text="Deductive proof on the relay read loop (packetConnHandler, under a loop invariant) and accept loop (connHandler): every write toward the client is preceded by a successful channel lookup by exact address (AddrEqual: IP and port) or permission lookup by IP for the datagram's real source, goes to the owning allocation's 5-tuple source over its TurnSocket, carries the bound channel's number or the source address; inbound TCP connections are registered/announced only with a permission. FingerprintAddr / AddrEqual have functional contracts.",
  ref="9 (C02)", note="Assumed: A1 (check-then-send atomicity), net.IP.String/Equal relation (A14), socket semantics (specs/net.spec).", technique=TECH),
 "C03": dict(
  text="Deductive proof that authenticateRequest returns hasAuth only if MESSAGE-INTEGRITY is present, an auth handler is configured, the presented nonce validates, realm and username are present, the handler accepts, and the integrity check with the handler's key succeeds; 401/438 challenges carry the freshly minted nonce and the realm; every state-changing callee (CreateAllocation, Refresh, AddPermission, AddChannelBind, CreateTCPConnection, GetTCPConnection) has the precondition 'authenticated in this request and acting on an allocation of the authenticated user'; success responses are sent only when authenticated; the short nonce is accepted only with age 0..60 min and a full-length MAC over its timestamp.",
  ref="9 (C03)", note="Assumed: ideal MAC / hmac.Equal (A4, specs/crypto.spec), stun text attributes and MessageIntegrity.Check (specs/stun.spec); base36 encode/decode use math/big and are trusted (not verified); the long hex NonceHash and nonce generation are not under contract yet.", technique=TECH),
 "C04": dict(
  text="Deductive proof that Fingerprint is exactly (16-byte src IP, 16-byte dst IP, ports mod 2^16, protocol); every handler looks its allocation up with (request source, local address of the request's socket, UDP) and passes exactly that allocation to every effect; CreateAllocation refuses a duplicate key and changes only its own key; DeleteAllocation removes only its own key; the relay loops write only to the owning 5-tuple's source over its own TurnSocket.",
  ref="9 (C04)", note="Assumed: A1; To16 byte function of net.IP (A14); injectivity of the fingerprint on valid addresses follows from the functional contract and A14, not separately proved.", technique=TECH),
 "C05": dict(
  text="Deductive proof that the slice handed to the relay socket is the very slice decoded from DATA / the ChannelData payload (same base, offset, length), that HandleRequest classifies a datagram as ChannelData exactly by its first four bytes, that handleDataPacket passes number and payload of the decoded frame, that Encode produces number, length, payload bytes and zero padding (C11), that the relay loop forwards a peer datagram only whole (n = datagram length) with the bound channel number or a Data indication naming the real source address, and that each handler writes at most once; the server read loop hands every datagram shorter than the inbound MTU whole and with its true source to HandleRequest and drops one that fills the buffer; the client classifies a datagram as ChannelData by its channel number before looking for the STUN cookie (defect fixed) and delivers inbound ChannelData / Data indications with exactly the frame payload and the bound / named peer address.",
  ref="9 (C05)", note="Assumed: datagram read semantics n = min(L, len(buf)) (specs/net.spec), stun.Build applies its setters faithfully. In Server.readLoop the precondition of HandleRequest is assumed (assume-callee-pre).", technique=TECH),
 "C06": dict(
  text="Deductive proof of the lifetime arithmetic for all 2^32 LIFETIME values (requested if < 1 h else configured default; exact 64-bit arithmetic), that the same duration is armed in CreateAllocation's timer and reported in the LIFETIME attribute, that Refresh re-arms exactly that duration and lifetime 0 deletes exactly the own 5-tuple before success is sent, that the expiry closure deletes its own allocation, that Close closes the allocation, stops its timer, removes its TCP connections and closes the relay socket, and that DeleteAllocation removes only its key.",
  ref="9 (C06)", note="Assumed: timers fire at their deadline (A2); A1. 'All permissions and channels are gone after Close' is NOT proved (needs a for-all-exists argument the solver does not find); only that no new state appears.", technique=TECH),
 "C07": dict(
  text="Deductive proof that AddPermission restarts (existing) or arms (new) the permission's timer with exactly the given timeout, that AddChannelBind arms/restarts the channel timer with the channel lifetime and the permission timer with the permission lifetime in both branches (universally over the bindings with that number), that the handlers pass ChannelBindTimeout / PermissionTimeout in that order, that expiry closures remove exactly their entry, and that timers of permissions and channels are pairwise distinct objects.",
  ref="9 (C07)", note="Assumed: A1, A2. That NewServer fills in the 5/10-minute defaults and readLoop passes them on is not under contract yet.", technique=TECH),
 "C08": dict(
  text="Deductive proof of the one-to-one invariant: AddChannelBind preserves 'numbers pairwise distinct', 'peers pairwise distinct (IP and port)' and 'numbers in 0x4000-0x7FFF', rejects exactly the conflicting binds (under the invariant) with the two conflict errors and leaves bindings and permissions unchanged, the handler maps both conflicts to 400 and rejects out-of-range numbers before binding; lookups return the first match / nil iff none; RemoveChannelBind removes the number.",
  ref="9 (C08)", note="Assumed: A1. The invariant is assumed on entry of each operation and re-established on exit (induction over operations is the standard soundness argument).", technique=TECH),
 "C09": dict(
  text="Deductive proof of the automatically generated safety obligations (index and slice bounds, nil dereference, nil map write, unchecked type assertion, division by zero, makeslice bounds, explicit panic, close of closed channel) on every path of every /repo function under contract (server request path from HandleRequest down, allocation package, wire codecs, stream framer, relay generators), for all inputs, plus framer progress (a successful frame consumes at least one byte), loop variants where given, and for both endpoints: the server's per-socket read loop and the client's Listen loop end only when reading the socket fails (handler errors are logged, the loop continues: client defect fixed), the client's HandleInbound never panics for any bytes from any sender, and delivery to the client's reader / accept queue never blocks (defect fixed).",
  ref="9 (C09)", note="Partial: panics inside dependencies are assumed away; safety obligations inside Server.readLoop and Manager.Close are assumed (assume-callee-pre) rather than checked; NewServer / readListener (TLS handshake, goroutine spawn) are not under contract; 'still serves afterwards' is an argument from no-panic + loop-continues + lock balance, not a history obligation.", technique=TECH),
 "C12": dict(
  text="Deductive proof on the real client code of the per-step facts the property is made of: a new transaction starts with nRtx 0 and interval RTO and is registered under its base64 transaction id before the first send of a private copy of the request; each timer firing adds exactly one to nRtx, doubles the interval and caps it at 1.6 s, and calls the timeout handler unlocked; the handler resends the same bytes to the same address only while nRtx != 7 and the transaction is still in the table, re-arms the timer with the current interval, and at nRtx == 7 or on a write error removes the entry and writes an error result; a response completes only the transaction found under its own id, after its timer is stopped and its entry removed under Client.mutexTrMap, with exactly that message and source; an unknown id writes nothing; every completion (WriteResult) is made by the execution that removed the entry under the lock (so at most one); Close empties the table and closes every pending result channel; nothing is left in the table when the first send fails (defect fixed).",
  ref="9 (C12)", note="NOT decided (outside the family, listed in evidence): 'never hangs' (the rendezvous on the unbuffered result channel needs a waiting receiver: liveness), real-time behaviour of time.AfterFunc (A2), atomicity of a handler w.r.t. other goroutines beyond what the lock obligations give (A1). The 7-transmission schedule is the composition of the proved per-firing clauses (lemmas C12:schedule).", technique=TECH),
 "C13": dict(
  text="Deductive proof on the real relayed-socket code: UDPConn.WriteTo hands data to the client transport only after createPermission returned nil for the destination, which it does only with the permission in state Permitted, a state reached only after a CreatePermission answered with a success response (ghost `granted`); ChannelData is used only for a binding in a state ok() accepts, those states are reachable only for bindings the server confirmed (ghost `confirmed`, set only where bind() sees the success response; state-machine invariant through startBinding / bindChannel / handleBindChannelError / recoverChannelBindBadRequest), the binding is the one registered under exactly this peer's address string and the frame carries its number, payload and length (via the ChannelData.Encode contract); each new binding gets the next unused number in 0x4000-0x7FFF (up to 16384 bindings); inbound ChannelData / Data indications are handed to the socket with the peer bound to the channel / named in XOR-PEER-ADDRESS and exactly the frame's payload; delivery to the reader and to the accept queue never blocks (queue-full drops; defect fixed); ReadFrom returns at most len(p) bytes or an error with n == 0.",
  ref="9 (C13)", note="NOT decided: FIFO order and content of Go channels between HandleInbound and ReadFrom (only non-nil-ness of queued records is an invariant), read deadlines in real time, concurrent writers (A1: a call is atomic w.r.t. other goroutines except at blocking transactions, where the invariants are preserved by every writer - argued, not proved), 'up to 16384 peers' is proved per creation under the range-not-exhausted precondition. tcp_alloc.go's DialTCP path is covered only by the shared createPermission contract.", technique=TECH),
 "C14": dict(
  text="Necessary conditions only, proved on the real code: the allocation refresh timer runs at half the granted lifetime, the permission refresh every 120 s and the binding check every 30 s with re-bind after 5 min (all strictly inside the server-side 5 min / 10 min timeouts: lemma over the constants); each refresh is sent to the server and waits for the answer; a 438 answer makes the client adopt the nonce of THAT ANSWER (Refresh, CreatePermission and ChannelBind paths) and retry at most 3 times; a success answer's LIFETIME becomes the allocation's lifetime; Close stops the timers, closes the socket once and sends Refresh with lifetime 0 without waiting; on the server side the lifetimes the client's cadence is measured against are the configured ones or the documented defaults (NewServer, readLoop, the ChannelBind / CreatePermission handlers pass them on unswapped).",
  ref="9 (C14)", note="The liveness conclusion of the property ('data keeps flowing for any duration') is NOT decidable by contracts on this code and is not claimed: timers firing (A2), the server's behaviour (C06/C07 contracts on the server side), and loss are outside. Also observed, not a violation of C14 as stated: refreshAllocation returns nil for an error response other than 438.", technique=TECH),
 "C15": dict(
  text="Deductive proof with ghost counters: relay generators leave no socket open on error paths; GetRandomEvenPort closes every probe socket; CreateAllocation opens exactly one relay socket/listener and fires one created event on success and nothing on failure; DeleteAllocation closes the allocation and fires exactly one deleted event iff the key existed; Close is idempotent, stops the timer, removes all TCP connections and closes the relay; TCP connection removal closes exactly once.",
  ref="9 (C15)", note="Partial: goroutine/timer drain and Manager.Close / Server.Close are not under contract (Manager.Close needs a separation invariant between allocations); permission/channel event pairing is not proved.", technique=TECH),
 "C16": dict(
  text="Deductive proof that connection ids are checked unique across all allocations before insertion, that a connection is installed unbound with the configured bind timeout whose closure removes it if still unbound, that GetTCPConnection hands a connection out only to the allocation's user and flips bound exactly once, that inbound connections are registered only with a permission, that the Connect handler answers 446/447/403 for the respective errors, passes the authenticated owner's allocation and the decoded peer, and that CreateTCPConnection releases the manager lock and leaks no socket on every path.",
  ref="9 (C16)", note="Assumed: io.Copy copies faithfully; A1, A2. Manager.RemoveTCPConnection is not under contract.", technique=TECH),
 "C17": dict(
  text="Deductive proof on lt_cred.go: both generators stamp the user name with the decimal text of floor((now+duration)/1s) (REST form: stamp, ':' and the user) and return base64(HMAC-SHA1(secret, username)); both handlers accept exactly when the (first field of the) user name parses as an integer that is >= the current Unix second, return GenerateAuthKey(full username, realm, base64(HMAC-SHA1(secret, full username))) and the documented user id; lemmas connect the generators' output format to the handlers' acceptance test (accepted at every second <= expiry, at none after).",
  ref="9 (C17)", note="Assumed, not proved: GenerateAuthKey's contract (MD5 of 'user:realm:password', trusted because it hashes through fmt.Fprint); strconv Atoi/FormatInt round trip and strings.Split field axioms (specs/crypto.spec); HMAC/MD5/base64 are functions of their inputs and collision-free (ideal hash, A4), which is what turns 'key differs' into 'never authenticates'; the end-to-end clause (real server and client) is covered only through C03's authenticateRequest contract.", technique=TECH),
 "C18": dict(
  text="Deductive proof, over all control-flow paths (including error returns and armed defers) of every function under contract that takes a mutex, of lock balance (held count on exit equals entry), unlock-of-held, no self-deadlock (no re-acquisition of a lock this execution already holds) and the declared lock order; plus the declared lock discipline (`guarded F by L`, 22 fields: the allocation tables, the manager's allocation and reservation lists, the client's transaction / permission / binding tables, nonce, lifetime, timer state and relayed-socket pointers): every read of such a field or of the map stored in it happens with the object's lock held (read or write), every write with the write lock held, unless the object was allocated by the accessing execution; and Client.Close empties the transaction table under the same lock under which handlers claim transactions (no send on a closed result channel).",
  ref="9 (C18)", note="Lock clauses and declared guarded-by discipline only: data-race freedom in general (fields without a declaration, e.g. Allocation.tcpConnections which is guarded by another object's lock, element accesses through a slice header read earlier), channel deadlocks and monitor invariants at unlock points (publish-before-arm window, DESIGN.md F5) are NOT decided by this check.", technique=TECH),
 "C19": dict(
  text="Deductive proof that every response built in internal/server carries the request's transaction id and goes to the request's socket and source address (caller-side clause at every buildAndSend / buildAndSendErr site), that Binding and Allocate report the request's source address, that Allocate reports the relayed address of the allocation just created and the lifetime armed, that an existing allocation yields either the cached success (same id, nothing created) or 437 (nothing changed), and that unknown comprehension-required attributes are answered 420 with the same method.",
  ref="9 (C19)", note="Assumed: stun.Build applies setters faithfully; reachability/uniqueness of the relayed address is C20 + the OS.", technique=TECH),

 "C10": dict(
  text="Deductive proof, for all buffers, all reads and all stream contents, of contracts on the real framer: consumeSingleTURNFrame equals the spec function frameLen/complete on every byte string (exact, prompt, progress, reject); STUNConn.ReadFrom keeps the invariant 'buffer = bytes read but not yet returned' against a ghost byte stream, returns exactly the frame that starts at the consumed stream position, copies it to the caller and reads only while the buffer holds no complete frame; the client's ConnectionBind reply parsing consumes exactly one STUN message whatever the segmentation. The contracts mention the concatenated stream only, never the cut points.",
  ref="9 (C10)",
  note="Assumed: contracts of net.Conn.Read / io.ReadFull / stun.IsMessage / stun.Build / Message.Decode (specs/*.spec); a Read that returns (0,nil) forever is not excluded (A7); the for-all-segmentations corollary is an induction over calls argued in DESIGN.md, each call's step is machine-checked.",
  technique="contract-based deductive verification: WP/VC generation over go/ssa of the working tree, z3/cvc5"),
 "C11": dict(
  text="Deductive proof of functional contracts on the real ChannelData codec (Encode with its padding loop under an inductive invariant and variant, WriteHeader, grow, Decode, IsChannelData, Reset) for every number, every payload length and aliasing of Data with Raw, and of every fixed-size attribute codec in internal/proto (size guard iff, decoded value = big-endian value of the bytes, encoder hands Message.Add exactly type/size/bytes), plus round-trip lemmas over the spec functions.",
  ref="9 (C11)",
  note="Assumed: stun.Message.Get/Add/Contains, stun.CheckSize (specs/stun.spec). XOR-PEER/RELAYED-ADDRESS delegate to pion/stun XORMappedAddress (outside /repo): not proved here. float64 seconds of a whole-second duration are exact (A12).",
  technique="contract-based deductive verification: WP/VC generation over go/ssa of the working tree, z3/cvc5"),
 "C20": dict(
  text="Deductive proof on the three bundled generators (all six Allocate* methods and Validate): for every MinPort<=MaxPort (incl. 65535 and single-port ranges) and every value of the random source the port handed to ListenPacket/Listen lies in [MinPort,MaxPort] (exact uint16 wrap-around arithmetic), Intn's argument is positive, a requested port is passed through unchanged, the socket returned is the one just bound, the advertised address is that socket's local address with IP = RelayAddress, and every error path returns (nil,nil,err) with no socket left open.",
  ref="9 (C20)",
  note="Assumed: transport.Net.ListenPacket / ListenConfig.Listen / ResolveTCPAddr, net.JoinHostPort, strconv.Itoa as uninterpreted functions (specs/net.spec); that a bound port is exclusive is OS behaviour (and SO_REUSEPORT is requested on TCP listeners) - not decided.",
  technique="contract-based deductive verification: WP/VC generation over go/ssa of the working tree, z3/cvc5"),
}

NA_REASON = {p: "contracts for this property's functions are not written yet in this session (see DESIGN.md section 11)" for p in ALL}
NA_REASON["C17"] = "lt_cred.go generators/handlers are not under contract yet"

def main():
    commits = subprocess.run(["git", "-C", "/repo", "log", "--format=%h %s"], capture_output=True, text=True).stdout.strip().split("\n")
    hooks = [c.split()[0] for c in commits if c.split(" ", 1)[1].startswith("verif:")]
    checks = []
    for p in ALL:
        if p not in CLAIMED:
            continue
        c = CLAIMED[p]
        checks.append({
            "property_id": p,
            "quick_cmd": "./check %s quick" % p,
            "thorough_cmd": "./check %s thorough" % p,
            "evidence_file": "/verif/evidence/%s.json" % p,
            "engine": "turnvc",
            "level_claimed": {"category": "proof", "text": c["text"], "design_ref": c["ref"]},
            "level_note": c["note"],
            "technique": c["technique"],
        })
    m = {
        "version": 1,
        "setup_cmd": "cd /verif/turnvc && GOFLAGS=-mod=mod GOPROXY=off go build -o /verif/bin/turnvc .",
        "hooks": {
            "guard": "verif",
            "enable": "the guarded files are comment-only contract files <pkg>/verif_contracts.go (//go:build verif); the verifier loads the working tree with -tags=verif; go build -tags verif ./... compiles identical code",
            "baseline_off_cmd": "cd /repo && GOFLAGS=-mod=mod GOPROXY=off go test -vet=off -count=1 -timeout 25m ./...",
            "source_commits": hooks,
            "add_only": True,
        },
        "engines": [{"name": "turnvc", "path": "/verif/turnvc", "serves_properties": sorted(CLAIMED),
                     "kind_free_text": "verification-condition generator over go/ssa of /repo's working tree (path enumeration, calls by contract, exact machine integers, byte heap); contracts as //@ comments in guarded verif_contracts.go files; obligations discharged by z3 5.1.0 (incremental) with quantifier-free relaxation and a z3 4.8.12 / cvc5 1.0.3 portfolio fallback"}],
        "checks": checks,
        "notes": "exit codes of ./check: 0 all obligations discharged; 1 VIOLATION line printed; 2 undecided/unsupported (never on the unchanged tree). Known findings: /verif/known_findings.txt.",
        "not_applicable": [{"property_id": p, "reason": NA_REASON[p]} for p in ALL if p not in CLAIMED],
    }
    json.dump(m, open("/verif/MANIFEST.json", "w"), indent=1)
    print("claimed:", sorted(CLAIMED))

main()
