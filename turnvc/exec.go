package main

// Symbolic execution of go/ssa function bodies: path enumeration over the loop-cut CFG, one incremental
// solver session per function, obligations checked where they arise.

import (
	"fmt"
	"go/constant"
	"go/token"
	"go/types"
	"os"
	"sort"
	"strings"

	"golang.org/x/tools/go/ssa"
)

type Obligation struct {
	Name      string            `json:"name"`
	Kind      string            `json:"kind"`
	Props     []string          `json:"props,omitempty"`
	Func      string            `json:"func"`
	Src       string            `json:"clause,omitempty"`
	Where     string            `json:"where,omitempty"`
	Instances int               `json:"instances"`
	Status    string            `json:"status"`
	Backends  map[string]int    `json:"backends"`
	Ms        float64           `json:"solver_ms"`
	FailPath  []int             `json:"fail_path,omitempty"`
	Model     map[string]string `json:"model,omitempty"`
	Raw       string            `json:"solver_output,omitempty"`
	Inputs    *ModelInputs      `json:"inputs,omitempty"`
}

type loopInfo struct {
	head    *ssa.BasicBlock
	ordinal int
	body    map[*ssa.BasicBlock]bool
	keys    map[string]bool // heap key prefixes written in the body
	all     bool            // havoc everything
	depth   int
}

type FnCtx struct {
	secondRunFailed bool
	entryLocks       map[string]string // lock arrays at entry for locks declared `entry-held`
	lazyAx           map[*Axiom]int
	eng              *Engine
	fn               *ssa.Function
	con              *Contract
	sol              *Solver
	nfresh           int
	obls             map[string]*Obligation
	oblOrder         []string
	heapSorts        map[string]string
	loops            map[*ssa.BasicBlock]*loopInfo
	entry            *State
	paths            int
	maxPaths         int
	unsup            map[string]bool
	notes            map[string]bool
	params           map[string]*Val
	paramList        []*Val
	frameTgts        []*assignTarget
	aborted          bool
	defaultInvLoops  int
	covers           map[string]bool
	wantProp         string
	keySorts         map[string]string
	locksTouched     map[string]bool
	reachableReturns int
	exercised        map[*AtCall]bool
	readLog          *[]string
	readSeen         map[string]string
	ipdomCache       map[*ssa.Function]map[*ssa.BasicBlock]*ssa.BasicBlock
	noMerge          bool
	merges           int
	joinCache        map[joinKey]*ssa.BasicBlock
}

type callFrame struct {
	fn        *ssa.Function
	ret       func(st *State, results []*Val)
	depth     int
	deferBase int
	top       bool
	stopAt    *ssa.BasicBlock
	caps      *[]*capture
	capDepth  int
	capConds  int
}

func (fx *FnCtx) unsupported(msg string) { fx.unsup[msg] = true }
func (fx *FnCtx) note(msg string)        { fx.notes[msg] = true }

func shortFn(s string) string {
	s = strings.ReplaceAll(s, modulePath+"/internal/", "")
	s = strings.ReplaceAll(s, modulePath+".", "turn.")
	s = strings.ReplaceAll(s, modulePath, "turn")
	s = strings.ReplaceAll(s, "github.com/pion/", "")
	return s
}

// ---------- obligations ----------

func (fx *FnCtx) oblige(st *State, name, kind string, cl *Clause, goal string) {
	if fx.con != nil && fx.con.LockOnly && kind != "lock" {
		// lock sweep: only the lock discipline of this body is checked; run-time checks and callee preconditions are
		// assumed (they are obligations of the full contracts, where those exist)
		switch kind {
		case "safety", "pre", "inv-entry", "model":
			fx.sol.Assert(goal)
		}
		return
	}
	if fx.con != nil && fx.con.AssumePre && (kind == "pre" || kind == "safety") {
		fx.note("NOT CHECKED (assume-callee-pre): callee preconditions and run-time checks of this body are assumed; only its own clauses, invariants and lock discipline are verified")
		fx.sol.Assert(goal)
		return
	}
	o := fx.obls[name]
	if o == nil {
		o = &Obligation{Name: name, Kind: kind, Func: shortFn(fx.fn.String()), Status: "discharged", Backends: map[string]int{}}
		if cl != nil {
			o.Props = cl.Props
			o.Src = cl.Src
			o.Where = cl.Where
		}
		fx.obls[name] = o
		fx.oblOrder = append(fx.oblOrder, name)
	}
	o.Instances++
	if o.Status == "undecided" {
		// already undecided on an earlier path: further instances cannot improve the verdict to "discharged"
		switch kind {
		case "safety", "pre", "inv-entry", "model":
			fx.sol.Assert(goal)
		}
		return
	}
	var inputs *ModelInputs
	if os.Getenv("TURNVC_TRACE") == "2" {
		fmt.Fprintf(os.Stderr, "CHECK %s goal=%d bytes script=%d lines\n", name, len(goal), len(fx.sol.decls)+fx.sol.nlines())
	}
	r := fx.sol.CheckNeg(goal, func(get func([]string) map[string]string) {
		inputs = fx.extractInputs(get)
	})
	if r.Status != "unsat" && r.Status != "sat" && fx.eng.Baseline != nil && fx.eng.Baseline[name] && !fx.secondRunFailed {
		// discharged on the unchanged tree but not decided now: before this is reported as a violation, give the
		// solvers a second, much longer run (a loaded or slower machine must not turn a slow proof into an alarm)
		r2 := portfolio(fx.sol.script(), goal, nil, 60000)
		r2.Ms += r.Ms
		if r2.Status == "unsat" {
			r2.Backend += "(second run)"
			r = r2
		} else {
			r.Ms = r2.Ms
			r.Raw += " | second run (60 s): " + r2.Raw
			fx.secondRunFailed = true // this function has a real problem: no further second runs for it
		}
	}
	o.Ms += r.Ms
	o.Backends[r.Backend]++
	if os.Getenv("TURNVC_TRACE") != "" && (r.Ms > 500 || r.Status != "unsat") {
		fmt.Fprintf(os.Stderr, "TRACE %s %s %.0fms path=%v paths=%d merges=%d\n", name, r.Status, r.Ms, st.path, fx.paths, fx.merges)
	}
	if strings.Contains(r.Raw, "(error") {
		fx.unsupported("solver reported an error on " + name + ": " + firstLines(r.Raw, 2))
	}
	switch r.Status {
	case "unsat":
	case "sat":
		if o.Status != "failed" {
			o.Status = "failed"
			o.FailPath = append([]int{}, st.path...)
			o.Inputs = inputs
			o.Raw = "sat (" + r.Backend + ")"
		}
	default:
		if o.Status == "discharged" {
			o.Status = "undecided"
			o.FailPath = append([]int{}, st.path...)
			o.Raw = r.Raw
		}
	}
	switch kind {
	case "safety", "pre", "inv-entry", "model":
		// execution continues only if these hold (a failed one is reported; what follows presupposes it)
		fx.sol.Assert(goal)
	}
}

// ---------- loops ----------

func (fx *FnCtx) findLoops(fn *ssa.Function) {
	type edge struct{ u, h *ssa.BasicBlock }
	var backs []edge
	for _, b := range fn.Blocks {
		for _, s := range b.Succs {
			if s.Dominates(b) {
				backs = append(backs, edge{b, s})
			}
		}
	}
	heads := map[*ssa.BasicBlock]*loopInfo{}
	for _, e := range backs {
		li := heads[e.h]
		if li == nil {
			li = &loopInfo{head: e.h, body: map[*ssa.BasicBlock]bool{e.h: true}, keys: map[string]bool{}}
			heads[e.h] = li
		}
		// natural loop: nodes that reach u without passing h
		stack := []*ssa.BasicBlock{e.u}
		for len(stack) > 0 {
			n := stack[len(stack)-1]
			stack = stack[:len(stack)-1]
			if li.body[n] {
				continue
			}
			li.body[n] = true
			stack = append(stack, n.Preds...)
		}
	}
	var hs []*ssa.BasicBlock
	for h := range heads {
		hs = append(hs, h)
	}
	sort.Slice(hs, func(i, j int) bool { return hs[i].Index < hs[j].Index })
	for i, h := range hs {
		heads[h].ordinal = i
		fx.loops[h] = heads[h]
		fx.loopWrites(heads[h])
	}
}

// loopWrites computes (statically) what a loop body may write.
func (fx *FnCtx) loopWrites(li *loopInfo) {
	for b := range li.body {
		for _, ins := range b.Instrs {
			switch x := ins.(type) {
			case *ssa.Store:
				li.keys[staticKeyPrefix(x.Addr)] = true
			case *ssa.MapUpdate:
				li.keys["P|"] = true
				li.keys["V|"] = true
				li.keys["N|"] = true
				li.keys["M|map:"] = true
			case *ssa.Send, *ssa.Select:
				li.keys["X|"] = true
			case *ssa.Go:
			case *ssa.Defer:
				li.all = true
			case *ssa.Call:
				fx.callWrites(li, &x.Call)
			}
		}
	}
}

func (fx *FnCtx) callWrites(li *loopInfo, cc *ssa.CallCommon) {
	if b, ok := cc.Value.(*ssa.Builtin); ok {
		switch b.Name() {
		case "append", "copy":
			if sl, ok := cc.Args[0].Type().Underlying().(*types.Slice); ok {
				li.keys["M|"+typeKey(sl.Elem())+"|"] = true
			}
		case "delete":
			li.keys["P|"] = true
			li.keys["V|"] = true
			li.keys["N|"] = true
			li.keys["M|map:"] = true
		case "close":
			li.keys["X|"] = true
		}
		return
	}
	key := fx.calleeKey(cc, nil)
	if m := modelFor(key); m != nil {
		for _, k := range m.writes {
			li.keys[k] = true
		}
		return
	}
	if c := fx.eng.CS.Funcs[key]; c != nil && !c.LockOnly && !c.Inline {
		if c.Pure || (c.HasFrame && len(c.Assigns) == 0) {
			return
		}
		if c.HasFrame {
			var cf *ssa.Function
			if f := cc.StaticCallee(); f != nil {
				cf = f
			} else if mc, ok := cc.Value.(*ssa.MakeClosure); ok {
				cf, _ = mc.Fn.(*ssa.Function)
			}
			keys, ok := fx.staticAssignKeys(c, cf, cc)
			if ok {
				for _, k := range keys {
					li.keys[k] = true
				}
				return
			}
		}
		li.all = true
		return
	}
	if isAssumedPure(key) {
		return
	}
	// a callee that will be inlined: its writes are the loop's writes
	var callee *ssa.Function
	if f := cc.StaticCallee(); f != nil {
		callee = f
	} else if mc, ok := cc.Value.(*ssa.MakeClosure); ok {
		callee, _ = mc.Fn.(*ssa.Function)
	}
	if callee != nil && callee.Blocks != nil && (inRepo(callee) || callee.Synthetic != "") && li.depth < 4 {
		loopFree := true
		for _, b := range callee.Blocks {
			for _, s := range b.Succs {
				if s.Dominates(b) {
					loopFree = false
				}
			}
		}
		if loopFree {
			li.depth++
			for _, b := range callee.Blocks {
				for _, ins := range b.Instrs {
					switch x := ins.(type) {
					case *ssa.Store:
						li.keys[staticKeyPrefix(x.Addr)] = true
					case *ssa.MapUpdate:
						li.keys["P|"] = true
						li.keys["V|"] = true
						li.keys["N|"] = true
						li.keys["M|map:"] = true
					case *ssa.Call:
						fx.callWrites(li, &x.Call)
					case *ssa.Defer:
						fx.callWrites(li, &x.Call)
					}
				}
			}
			li.depth--
			return
		}
	}
	li.all = true
}

func staticKeyPrefix(addr ssa.Value) string {
	switch a := addr.(type) {
	case *ssa.FieldAddr:
		// walk up to the root object
		path := fmt.Sprint(a.Field)
		x := a.X
		for {
			if fa, ok := x.(*ssa.FieldAddr); ok {
				path = fmt.Sprint(fa.Field) + "." + path
				x = fa.X
				continue
			}
			break
		}
		if ia, ok := x.(*ssa.IndexAddr); ok {
			et := elemTypeOfIndexable(ia.X.Type())
			return "M|" + typeKey(et) + "|" + path
		}
		pt, ok := x.Type().Underlying().(*types.Pointer)
		if !ok {
			return ""
		}
		_, root, cpath := canonField(pt.Elem(), path)
		return "F|" + root + "|" + cpath
	case *ssa.IndexAddr:
		return "M|" + typeKey(elemTypeOfIndexable(a.X.Type())) + "|"
	case *ssa.Global:
		return "M|cell:" + typeKey(a.Type().(*types.Pointer).Elem()) + "|"
	default:
		if pt, ok := addr.Type().Underlying().(*types.Pointer); ok {
			switch kindOf(pt.Elem()) {
			case KStruct:
				return "F|" + typeKey(pt.Elem()) + "|"
			case KArr:
				return "M|" + typeKey(pt.Elem().Underlying().(*types.Array).Elem()) + "|"
			default:
				return "M|cell:" + typeKey(pt.Elem()) + "|"
			}
		}
	}
	return ""
}

func elemTypeOfIndexable(t types.Type) types.Type {
	switch u := t.Underlying().(type) {
	case *types.Slice:
		return u.Elem()
	case *types.Array:
		return u.Elem()
	case *types.Pointer:
		if a, ok := u.Elem().Underlying().(*types.Array); ok {
			return a.Elem()
		}
	}
	return t
}

// ---------- values of operands ----------

func (st *State) val(v ssa.Value) *Val {
	switch c := v.(type) {
	case *ssa.Const:
		return st.constVal(c)
	case *ssa.Global:
		return mkInt(fmt.Sprint(st.fx.eng.globalID(c.Pkg.Pkg.Path()+"."+c.Name())), c.Type())
	case *ssa.Function:
		return &Val{K: KInt, T: c.Type(), S: fmt.Sprint(8192 + strID("fn:"+c.String())), Clo: &cloInfo{fn: c.String()}}
	}
	if x, ok := st.env[v]; ok {
		return x
	}
	st.fx.unsupported(fmt.Sprintf("no value for %s (%T) in %s", v.Name(), v, v.Parent()))
	return st.freshVal(v.Type(), "undef")
}

func (st *State) constVal(c *ssa.Const) *Val {
	t := c.Type()
	if c.Value == nil {
		z := zeroVal(t)
		return z
	}
	switch c.Value.Kind() {
	case constant.Bool:
		v := mkBool(fmt.Sprint(constant.BoolVal(c.Value)))
		v.T = t
		return v
	case constant.Int:
		if isFloatT(t) {
			return mkInt(fmt.Sprint(100000+strID("float:"+c.Value.ExactString())), t)
		}
		n, _ := isNum(strings.TrimPrefix(c.Value.ExactString(), "+"))
		if n == nil {
			s := c.Value.ExactString()
			if strings.HasPrefix(s, "-") {
				n2, _ := isNum(s[1:])
				if n2 != nil {
					return mkInt(num(n2.Neg(n2)), t)
				}
			}
			return st.freshVal(t, "const")
		}
		return mkInt(num(n), t)
	case constant.String:
		s := constant.StringVal(c.Value)
		id := strID(s)
		st.fx.sol.Declare("strlen", "(declare-fun strlen (Int) Int)")
		st.fx.sol.Assert(tEq("(strlen "+fmt.Sprint(id)+")", fmt.Sprint(len(s))))
		return mkInt(fmt.Sprint(id), t)
	case constant.Float:
		return mkInt(fmt.Sprint(100000+strID("float:"+c.Value.ExactString())), t)
	}
	return st.freshVal(t, "const")
}

// ptrLoc returns the location a pointer-typed SSA value designates.
func (st *State) ptrLoc(p ssa.Value) *Loc {
	if l, ok := st.locs[p]; ok {
		return l
	}
	if g, ok := p.(*ssa.Global); ok {
		pt := g.Type().(*types.Pointer).Elem()
		return st.objLoc(st.val(g).S, pt)
	}
	pt, ok := p.Type().Underlying().(*types.Pointer)
	if !ok {
		st.fx.unsupported("dereference of non-pointer " + p.Type().String())
		return &Loc{Mem: true, Ref: "0", Idx: "0", Root: "unknown", T: p.Type()}
	}
	return st.objLoc(st.val(p).S, pt.Elem())
}

// ---------- main loop ----------

func (fx *FnCtx) execBlock(st *State, fr *callFrame, b *ssa.BasicBlock, start int, pred *ssa.BasicBlock) {
	if fx.aborted {
		return
	}
	if start == 0 && pred != nil && fx.arriveCapture(st, fr, b, pred) {
		return
	}
	if start == 0 {
		if fr.top {
			st.path = append(st.path, b.Index)
		}
		st.fuel--
		if st.fuel <= 0 {
			fx.unsupported("path too long (fuel exhausted)")
			fx.aborted = true
			return
		}
		// loop head handling
		if li, ok := fx.loops[b]; ok && fr.top {
			if pred != nil && li.body[pred] {
				fx.loopBackEdge(st, fr, li, b, pred)
				return
			}
			fx.loopEntry(st, fr, li, b, pred)
		} else if ok && !fr.top {
			fx.unsupported("loop in inlined callee " + fr.fn.String())
			fx.aborted = true
			return
		} else {
			for _, ins := range b.Instrs {
				phi, ok := ins.(*ssa.Phi)
				if !ok {
					break
				}
				for i, p := range b.Preds {
					if p == pred {
						st.env[phi] = st.val(phi.Edges[i])
						if l, ok := st.locs[phi.Edges[i]]; ok {
							st.locs[phi] = l
						}
					}
				}
			}
		}
	}
	for idx := start; idx < len(b.Instrs); idx++ {
		ins := b.Instrs[idx]
		if fr.top {
			st.curPoint = point{b, idx}
		}
		switch x := ins.(type) {
		case *ssa.Phi, *ssa.DebugRef:
			continue
		case *ssa.If:
			c := st.val(x.Cond).S
			fx.branch(st, fr, b, c)
			return
		case *ssa.Jump:
			fx.execBlock(st, fr, b.Succs[0], 0, b)
			return
		case *ssa.Return:
			var rs []*Val
			for _, r := range x.Results {
				rs = append(rs, st.val(r))
			}
			fr.ret(st, rs)
			return
		case *ssa.Panic:
			if fr.top || true {
				fx.oblige(st, fx.oname("safety", "no-panic"), "safety", nil, "false")
			}
			fx.paths++
			return
		case *ssa.Call:
			// may inline: continuation resumes after this instruction
			done := fx.doCall(st, fr, x, &x.Call, func(st2 *State, res *Val) {
				if res != nil {
					st2.env[x] = res
				}
				fx.execBlock(st2, fr, b, idx+1, nil)
			})
			if done {
				return
			}
		case *ssa.RunDefers:
			fx.runDefers(st, fr, func(st2 *State) { fx.execBlock(st2, fr, b, idx+1, nil) })
			return
		default:
			fx.step(st, fr, ins)
		}
		if fx.aborted {
			return
		}
	}
}

func (fx *FnCtx) branch(st *State, fr *callFrame, b *ssa.BasicBlock, c string) {
	if c == "true" {
		fx.execBlock(st, fr, b.Succs[0], 0, b)
		return
	}
	if c == "false" {
		fx.execBlock(st, fr, b.Succs[1], 0, b)
		return
	}
	// merge at the immediate post-dominator when possible
	var j *ssa.BasicBlock
	if !fx.noMerge {
		j = fx.joinOf(fr.fn, b)
		if j != nil {
			if _, isLoop := fx.loops[j]; isLoop || len(j.Preds) < 2 {
				j = nil
			}
		}
	}
	var caps []*capture
	savedStop, savedCaps, savedDepth, savedConds := fr.stopAt, fr.caps, fr.capDepth, fr.capConds
	if j != nil {
		fr.stopAt, fr.caps, fr.capDepth, fr.capConds = j, &caps, len(fx.sol.frames), len(st.conds)
	}
	prefix := append([]string{}, st.conds...)
	for i, cond := range []string{c, tNot(c)} {
		s2 := st
		if i == 0 {
			s2 = st.clone()
		}
		s2.conds = append(append([]string{}, prefix...), cond)
		fx.sol.Push()
		fx.sol.Assert(cond)
		feasible := fx.sol.Feasible()
		if feasible {
			fx.execBlock(s2, fr, b.Succs[i], 0, b)
		}
		fx.sol.Pop()
		if fx.aborted {
			fr.stopAt, fr.caps, fr.capDepth, fr.capConds = savedStop, savedCaps, savedDepth, savedConds
			return
		}
	}
	fr.stopAt, fr.caps, fr.capDepth, fr.capConds = savedStop, savedCaps, savedDepth, savedConds
	if j == nil || len(caps) == 0 {
		return
	}
	merged := fx.mergeStates(caps, prefix)
	if merged == nil {
		// cannot merge (different pending defers): continue each captured state on its own
		for _, cp := range caps {
			fx.sol.Push()
			for _, l := range cp.lines {
				if t, ok := stripAssert(l); ok {
					fx.sol.Assert(t)
				}
			}
			fx.execBlock(cp.st, fr, j, firstNonPhi(j), nil)
			fx.sol.Pop()
		}
		return
	}
	fx.assertCaptured(caps)
	fx.merges++
	// the merged state arrives at j: it may itself be captured by an enclosing merge with the same join point
	if fr.stopAt == j && fr.caps != nil {
		var lines []string
		for _, f := range fx.sol.frames[fr.capDepth:] {
			lines = append(lines, f.lines...)
		}
		*fr.caps = append(*fr.caps, &capture{st: merged, pc: tAnd(merged.conds[fr.capConds:]...), lines: lines})
		return
	}
	if fr.top {
		merged.path = append(merged.path, j.Index)
	}
	fx.execBlock(merged, fr, j, firstNonPhi(j), nil)
}

func (fx *FnCtx) oname(kind, label string) string {
	return shortFn(fx.fn.String()) + "/" + kind + "[" + label + "]"
}

// ---------- single instructions ----------

func (fx *FnCtx) step(st *State, fr *callFrame, ins ssa.Instruction) {
	sol := fx.sol
	switch x := ins.(type) {
	case *ssa.Alloc:
		elem := x.Type().(*types.Pointer).Elem()
		r := st.alloc()
		st.env[x] = mkInt(r, x.Type())
		l := st.objLoc(r, elem)
		if kindOf(elem) == KArr {
			mk, es := arrElemKey(elem)
			m := st.heapGet(mk, heapSort(mk, es))
			st.heapSet(mk, heapSort(mk, es), tSto(m, r, zeroVal(elem).S))
		} else {
			st.storeLoc(l, zeroVal(elem))
		}
		// atomic fields of a fresh struct start at their zero value
		if stt, ok := elem.Underlying().(*types.Struct); ok && kindOf(elem) == KStruct {
			for i := 0; i < stt.NumFields(); i++ {
				ft := stt.Field(i).Type()
				if n, ok := ft.(*types.Named); ok && n.Obj().Pkg() != nil && n.Obj().Pkg().Path() == "sync/atomic" {
					fl := subLoc(l, i, ft)
					key := "A|" + fl.className()
					if n.Obj().Name() == "Bool" {
						a := st.heapGet(key, "(Array Int Bool)")
						st.heapSet(key, "(Array Int Bool)", tSto(a, r, "false"))
					} else {
						a := st.heapGet(key, "(Array Int Int)")
						st.heapSet(key, "(Array Int Int)", tSto(a, r, "0"))
					}
				}
			}
		}
	case *ssa.FieldAddr:
		base := st.ptrLoc(x.X)
		pv := st.val(x.X)
		if _, isAlloc := x.X.(*ssa.Alloc); !isAlloc {
			if _, isFA := x.X.(*ssa.FieldAddr); !isFA {
				fx.oblige(st, fx.oname("safety", "nil-deref"), "safety", nil, tNot(tEq(pv.S, "0")))
			}
		}
		stt := x.X.Type().Underlying().(*types.Pointer).Elem().Underlying().(*types.Struct)
		if isOpaqueStruct(x.X.Type().Underlying().(*types.Pointer).Elem()) {
			// field of an opaque (external) struct: unmodelled storage
			fx.note("access to field of opaque struct " + x.X.Type().String())
			st.env[x] = mkInt(st.fx.fresh("opaqueaddr", "Int"), x.Type())
			st.locs[x] = &Loc{Mem: true, Ref: st.alloc(), Idx: "0", Root: typeKey(stt.Field(x.Field).Type()), T: stt.Field(x.Field).Type()}
			return
		}
		l := subLoc(base, x.Field, stt.Field(x.Field).Type())
		st.locs[x] = l
		ft := stt.Field(x.Field).Type()
		if kindOf(ft) == KArr {
			// pointer to array field: the address is the memory base
			st.env[x] = mkInt(st.locAddr(base, fmt.Sprint(x.Field)), x.Type())
			delete(st.locs, x)
		} else {
			v := mkInt(pv.S, x.Type())
			v.Org = "fieldaddr " + l.className()
			st.env[x] = v
		}
	case *ssa.Field:
		sv := st.val(x.X)
		if sv.K == KStruct {
			st.env[x] = sv.Fs[x.Field]
		} else {
			st.env[x] = st.freshVal(x.Type(), "opaquefield")
		}
	case *ssa.IndexAddr:
		iv := st.val(x.Index).S
		switch u := x.X.Type().Underlying().(type) {
		case *types.Slice:
			sv := st.val(x.X)
			fx.oblige(st, fx.oname("safety", "index-bounds"), "safety", nil, tAnd(tCmp("<=", "0", iv), tCmp("<", iv, sv.L)))
			st.locs[x] = &Loc{Mem: true, Ref: sv.B, Idx: tAdd(sv.O, iv), Root: typeKey(u.Elem()), T: u.Elem(), RootT: u.Elem()}
			st.env[x] = mkInt(sv.B, x.Type())
		case *types.Pointer:
			arr := u.Elem().Underlying().(*types.Array)
			pv := st.val(x.X)
			fx.oblige(st, fx.oname("safety", "index-bounds"), "safety", nil, tAnd(tCmp("<=", "0", iv), tCmp("<", iv, fmt.Sprint(arr.Len()))))
			st.locs[x] = &Loc{Mem: true, Ref: pv.S, Idx: iv, Root: typeKey(arr.Elem()), T: arr.Elem(), RootT: arr.Elem()}
			st.env[x] = mkInt(pv.S, x.Type())
		default:
			fx.unsupported("IndexAddr on " + x.X.Type().String())
			st.env[x] = st.freshVal(x.Type(), "idxaddr")
		}
	case *ssa.Index:
		av := st.val(x.X)
		iv := st.val(x.Index).S
		if av.K == KArr {
			fx.oblige(st, fx.oname("safety", "index-bounds"), "safety", nil, tAnd(tCmp("<=", "0", iv), tCmp("<", iv, fmt.Sprint(arrLen(av.T)))))
			r := &Val{K: kindOf(x.Type()), T: x.Type(), S: tSel(av.S, iv)}
			st.assumeWF(r, false)
			st.env[x] = r
		} else if isStringT(x.X.Type()) {
			sol.Declare("strlen", "(declare-fun strlen (Int) Int)")
			sol.Declare("strbyte", "(declare-fun strbyte (Int Int) Int)")
			fx.oblige(st, fx.oname("safety", "index-bounds"), "safety", nil, tAnd(tCmp("<=", "0", iv), tCmp("<", iv, "(strlen "+av.S+")")))
			r := mkInt("(strbyte "+av.S+" "+iv+")", x.Type())
			st.assumeWF(r, false)
			st.env[x] = r
		} else {
			st.env[x] = st.freshVal(x.Type(), "index")
		}
	case *ssa.Store:
		if g, ok := x.Addr.(*ssa.Global); ok {
			fx.note("store to package variable " + g.Name())
		}
		pv := st.val(x.Addr)
		if _, isAlloc := x.Addr.(*ssa.Alloc); !isAlloc {
			if _, has := st.locs[x.Addr]; !has {
				fx.oblige(st, fx.oname("safety", "nil-deref"), "safety", nil, tNot(tEq(pv.S, "0")))
			}
		}
		l := st.ptrLoc(x.Addr)
		fx.checkFrameStore(st, l)
		if !l.Mem {
			fx.guardedAccess(st, l.className(), l.Ref, true)
		}
		v := st.val(x.Val)
		if kindOf(l.T) == KArr && !l.Mem {
			st.storeLoc(l, v)
		} else if kindOf(l.T) == KArr {
			mk, es := arrElemKey(l.T)
			m := st.heapGet(mk, heapSort(mk, es))
			st.heapSet(mk, heapSort(mk, es), tSto(m, l.Ref, v.S))
		} else {
			st.storeLoc(l, v)
		}
	case *ssa.UnOp:
		fx.unop(st, x)
	case *ssa.BinOp:
		st.env[x] = fx.binop(st, x.Op, st.val(x.X), st.val(x.Y), x.Type(), x.X.Type())
	case *ssa.Convert:
		st.env[x] = fx.convert(st, st.val(x.X), x.X.Type(), x.Type())
	case *ssa.ChangeType:
		v := *st.val(x.X)
		v.T = x.Type()
		st.env[x] = &v
		if l, ok := st.locs[x.X]; ok {
			st.locs[x] = l // (*int32)(&s.field): the same location under another pointer type
		}
	case *ssa.ChangeInterface:
		v := *st.val(x.X)
		v.T = x.Type()
		st.env[x] = &v
	case *ssa.MakeInterface:
		st.env[x] = fx.makeInterface(st, st.val(x.X), x.X.Type(), x.Type())
	case *ssa.TypeAssert:
		fx.typeAssert(st, x)
	case *ssa.Extract:
		tv := st.val(x.Tuple)
		if tv.K == KTuple && x.Index < len(tv.Fs) {
			st.env[x] = tv.Fs[x.Index]
		} else {
			st.env[x] = st.freshVal(x.Type(), "extract")
		}
	case *ssa.Slice:
		fx.sliceOp(st, x)
	case *ssa.MakeSlice:
		ln, cp := st.val(x.Len).S, st.val(x.Cap).S
		fx.oblige(st, fx.oname("safety", "makeslice-len"), "safety", nil, tAnd(tCmp("<=", "0", ln), tCmp("<=", ln, cp), tCmp("<=", cp, maxAlloc)))
		base := st.alloc()
		et := x.Type().Underlying().(*types.Slice).Elem()
		fx.zeroMem(st, base, et)
		st.env[x] = &Val{K: KSlice, T: x.Type(), B: base, O: "0", L: ln, C: cp}
	case *ssa.MakeMap:
		r := st.alloc()
		mt := x.Type().Underlying().(*types.Map)
		fx.mapInit(st, r, mt)
		st.env[x] = mkInt(r, x.Type())
	case *ssa.MakeChan:
		r := st.alloc()
		k := "X|closed"
		a := st.heapGet(k, "(Array Int Bool)")
		st.heapSet(k, "(Array Int Bool)", tSto(a, r, "false"))
		st.env[x] = mkInt(r, x.Type())
	case *ssa.MakeClosure:
		r := st.alloc()
		f := x.Fn.(*ssa.Function)
		ci := &cloInfo{fn: f.String()}
		for i, b := range x.Bindings {
			bv := st.val(b)
			ci.bindings = append(ci.bindings, bv)
			st.storeLoc(&Loc{Mem: true, Ref: r, Idx: "0", Root: "clo:" + shortFn(f.String()) + ":" + fmt.Sprint(i), T: b.Type()}, bv)
		}
		k := "K|fnid"
		a := st.heapGet(k, "(Array Int Int)")
		st.heapSet(k, "(Array Int Int)", tSto(a, r, fmt.Sprint(strID("fn:"+f.String()))))
		st.env[x] = &Val{K: KInt, T: x.Type(), S: r, Clo: ci}
	case *ssa.Lookup:
		fx.lookup(st, x)
	case *ssa.MapUpdate:
		fx.mapUpdate(st, st.val(x.Map), x.Map.Type().Underlying().(*types.Map), st.val(x.Key), st.val(x.Value))
	case *ssa.Range:
		fx.rangeInit(st, x)
	case *ssa.Next:
		fx.rangeNext(st, x)
	case *ssa.Defer:
		d := &deferRec{call: &x.Call, site: x}
		if !x.Call.IsInvoke() {
			if _, isB := x.Call.Value.(*ssa.Builtin); !isB {
				d.fnv = st.val(x.Call.Value)
			}
		} else {
			d.fnv = st.val(x.Call.Value)
		}
		for _, a := range x.Call.Args {
			d.args = append(d.args, st.val(a))
		}
		st.defers = append(st.defers, d)
	case *ssa.Go:
		fx.goStmt(st, fr, x)
	case *ssa.Send:
		fx.sendOp(st, x)
	case *ssa.Select:
		fx.selectOp(st, x)
	default:
		fx.unsupported(fmt.Sprintf("instruction %T", ins))
		if v, ok := ins.(ssa.Value); ok {
			st.env[v] = st.freshVal(v.Type(), "unsup")
		}
	}
}

func (fx *FnCtx) zeroMem(st *State, base string, et types.Type) {
	var ls []leaf
	leavesOf(et, "", &ls)
	for _, lf := range ls {
		if lf.arr {
			continue
		}
		key := "M|" + typeKey(et) + "|" + lf.path
		sort := heapSort(key, lf.sort)
		z := "0"
		if lf.sort == "Bool" {
			z = "false"
		}
		m := st.heapGet(key, sort)
		st.heapSet(key, sort, tSto(m, base, "((as const (Array Int "+lf.sort+")) "+z+")"))
	}
}

func (fx *FnCtx) unop(st *State, x *ssa.UnOp) {
	switch x.Op {
	case token.MUL:
		if g, ok := x.X.(*ssa.Global); ok {
			name := g.Pkg.Pkg.Path() + "." + g.Name()
			if id, ok := fx.eng.Sentinels[name]; ok {
				st.env[x] = mkInt(fmt.Sprint(id), x.Type())
				return
			}
		}
		pv := st.val(x.X)
		if _, isAlloc := x.X.(*ssa.Alloc); !isAlloc {
			if _, has := st.locs[x.X]; !has {
				if _, isG := x.X.(*ssa.Global); !isG {
					fx.oblige(st, fx.oname("safety", "nil-deref"), "safety", nil, tNot(tEq(pv.S, "0")))
				}
			}
		}
		l := st.ptrLoc(x.X)
		var v *Val
		if kindOf(l.T) == KArr && l.Mem {
			mk, es := arrElemKey(l.T)
			m := st.heapGet(mk, heapSort(mk, es))
			v = &Val{K: KArr, T: l.T, S: tSel(m, l.Ref)}
		} else {
			v = st.loadLoc(l)
		}
		if !l.Mem && v.K == KInt {
			vv := *v
			vv.Org = "field " + l.className()
			vv.Owner = l.Ref
			v = &vv
		}
		if !l.Mem {
			fx.guardedAccess(st, l.className(), l.Ref, false)
		}
		if g, ok := x.X.(*ssa.Global); ok && !strings.HasPrefix(g.Pkg.Pkg.Path(), modulePath) && v.K == KInt {
			if _, isPtr := g.Type().(*types.Pointer).Elem().Underlying().(*types.Pointer); isPtr {
				// package-level pointer variables of dependencies (base64.StdEncoding, ...) are initialised and never nil
				fx.sol.Assert(tNot(tEq(v.S, "0")))
			}
		}
		st.env[x] = v
	case token.NOT:
		st.env[x] = mkBool(tNot(st.val(x.X).S))
	case token.SUB:
		v := st.val(x.X)
		st.env[x] = mkInt(wrapTo(tSub("0", v.S), x.Type()), x.Type())
	case token.ARROW:
		cv := st.val(x.X)
		// receive: modelled for close-only signal channels (blocks until closed)
		k := "X|closed"
		a := st.heapGet(k, "(Array Int Bool)")
		_ = a
		fx.note("channel receive modelled as returning after close/unknown send")
		st.heapSet(k, "(Array Int Bool)", st.fx.fresh("closedafter", "(Array Int Bool)"))
		_ = cv
		if x.CommaOk {
			st.env[x] = st.freshVal(x.Type(), "recv")
		} else {
			st.env[x] = st.freshVal(x.Type(), "recv")
		}
	case token.XOR:
		v := st.val(x.X)
		fx.sol.Declare("bvnot", "(declare-fun bvnot (Int) Int)")
		r := mkInt("(bvnot "+v.S+")", x.Type())
		st.assumeWF(r, false)
		st.env[x] = r
	default:
		fx.unsupported("unop " + x.Op.String())
		st.env[x] = st.freshVal(x.Type(), "unop")
	}
}

func pow2(k int64) string {
	return "(^2 " + fmt.Sprint(k) + ")"
}

func (fx *FnCtx) binop(st *State, op token.Token, a, b *Val, rt types.Type, opT types.Type) *Val {
	sol := fx.sol
	switch op {
	case token.EQL:
		return mkBool(eqVal(a, b))
	case token.NEQ:
		return mkBool(tNot(eqVal(a, b)))
	}
	if a.K == KBool {
		switch op {
		case token.LAND, token.AND:
			return mkBool(tAnd(a.S, b.S))
		case token.LOR, token.OR:
			return mkBool(tOr(a.S, b.S))
		}
	}
	if isStringT(opT) {
		switch op {
		case token.ADD:
			sol.Declare("strcat", "(declare-fun strcat (Int Int) Int)")
			sol.Declare("strlen", "(declare-fun strlen (Int) Int)")
			r := "(strcat " + a.S + " " + b.S + ")"
			sol.Assert(tEq("(strlen "+r+")", tAdd("(strlen "+a.S+")", "(strlen "+b.S+")")))
			sol.Assert(tCmp(">=", r, "0"))
			return mkInt(r, rt)
		default:
			sol.Declare("strcmp", "(declare-fun strcmp (Int Int) Int)")
			c := "(strcmp " + a.S + " " + b.S + ")"
			switch op {
			case token.LSS:
				return mkBool(tCmp("<", c, "0"))
			case token.LEQ:
				return mkBool(tCmp("<=", c, "0"))
			case token.GTR:
				return mkBool(tCmp(">", c, "0"))
			case token.GEQ:
				return mkBool(tCmp(">=", c, "0"))
			}
		}
	}
	if isFloatT(opT) {
		sol.Declare("fop", "(declare-fun fop (Int Int Int) Int)")
		sol.Declare("fcmp", "(declare-fun fcmp (Int Int Int) Bool)")
		switch op {
		case token.LSS, token.LEQ, token.GTR, token.GEQ:
			return mkBool("(fcmp " + fmt.Sprint(int(op)) + " " + a.S + " " + b.S + ")")
		}
		return mkInt("(fop "+fmt.Sprint(int(op))+" "+a.S+" "+b.S+")", rt)
	}
	switch op {
	case token.LSS:
		return mkBool(tCmp("<", a.S, b.S))
	case token.LEQ:
		return mkBool(tCmp("<=", a.S, b.S))
	case token.GTR:
		return mkBool(tCmp(">", a.S, b.S))
	case token.GEQ:
		return mkBool(tCmp(">=", a.S, b.S))
	case token.ADD:
		return mkInt(wrapOnce(tAdd(a.S, b.S), rt), rt)
	case token.SUB:
		return mkInt(wrapOnce(tSub(a.S, b.S), rt), rt)
	case token.MUL:
		return mkInt(wrapTo(tMul(a.S, b.S), rt), rt)
	case token.QUO, token.REM:
		fx.oblige(st, fx.oname("safety", "div-by-zero"), "safety", nil, tNot(tEq(b.S, "0")))
		var q string
		if isUnsigned(rt) {
			q = tDivE(a.S, b.S)
		} else {
			q = tIte(tCmp(">=", a.S, "0"), tDivE(a.S, b.S), tSub("0", tDivE(tSub("0", a.S), b.S)))
		}
		if op == token.QUO {
			return mkInt(wrapTo(q, rt), rt)
		}
		if isUnsigned(rt) {
			return mkInt(tModE(a.S, b.S), rt)
		}
		return mkInt(tSub(a.S, tMul(b.S, q)), rt)
	case token.SHL:
		if n, ok := isNum(b.S); ok && n.IsInt64() && n.Int64() < 64 {
			f := new(bigInt).Lsh(bigOne, uint(n.Int64()))
			return mkInt(wrapTo(tMul(a.S, num(f)), rt), rt)
		}
	case token.SHR:
		if n, ok := isNum(b.S); ok && n.IsInt64() {
			if n.Int64() >= 64 && isUnsigned(rt) {
				return mkInt("0", rt)
			}
			f := new(bigInt).Lsh(bigOne, uint(n.Int64()))
			return mkInt(tDivE(a.S, num(f)), rt) // floor division: arithmetic shift for signed, logical for unsigned
		}
	case token.AND:
		for _, pr := range [][2]*Val{{a, b}, {b, a}} {
			if n, ok := isNum(pr[1].S); ok && n.Sign() >= 0 {
				m := new(bigInt).Add(n, bigOne)
				if m.BitLen() > 0 && new(bigInt).And(m, n).Sign() == 0 && isUnsigned(rt) { // n = 2^k-1
					return mkInt(tModE(pr[0].S, num(m)), rt)
				}
			}
		}
	}
	// uninterpreted bit operation with range fact
	name := "bvop_" + sanitize(op.String()) + fmt.Sprint(int(op))
	sol.Declare(name, "(declare-fun "+name+" (Int Int) Int)")
	r := mkInt("("+name+" "+a.S+" "+b.S+")", rt)
	st.assumeWF(r, false)
	fx.note("bit operation " + op.String() + " treated as uninterpreted")
	return r
}

func (fx *FnCtx) convert(st *State, v *Val, from, to types.Type) *Val {
	sol := fx.sol
	switch {
	case isIntegerT(from) && isIntegerT(to):
		flo, fhi, _ := intRange(from)
		tlo, thi, _ := intRange(to)
		if flo.Cmp(tlo) >= 0 && fhi.Cmp(thi) <= 0 {
			return mkInt(v.S, to)
		}
		return mkInt(wrapTo(v.S, to), to)
	case isStringT(to) && kindOf(from) == KSlice:
		sol.Declare("str_of_bytes", "(declare-fun str_of_bytes ((Array Int Int) Int Int) Int)")
		sol.Declare("strlen", "(declare-fun strlen (Int) Int)")
		m := st.heapGet("M|"+typeKey(from.Underlying().(*types.Slice).Elem())+"|", "(Array Int (Array Int Int))")
		r := "(str_of_bytes " + tSel(m, v.B) + " " + v.O + " " + v.L + ")"
		sol.Assert(tAnd(tEq("(strlen "+r+")", v.L), tCmp(">=", r, "0"), tEq(tEq(r, "0"), tEq(v.L, "0"))))
		return mkInt(r, to)
	case kindOf(to) == KSlice && isStringT(from):
		sol.Declare("strlen", "(declare-fun strlen (Int) Int)")
		sol.Declare("str_of_bytes", "(declare-fun str_of_bytes ((Array Int Int) Int Int) Int)")
		base := st.alloc()
		ln := "(strlen " + v.S + ")"
		sol.Assert(tCmp(">=", ln, "0"))
		key := "M|" + typeKey(to.Underlying().(*types.Slice).Elem()) + "|"
		m := st.heapGet(key, "(Array Int (Array Int Int))")
		cont := fx.fresh("strbytes", "(Array Int Int)")
		st.heapSet(key, "(Array Int (Array Int Int))", tSto(m, base, cont))
		sol.Assert(tEq("(str_of_bytes "+cont+" 0 "+ln+")", v.S))
		return &Val{K: KSlice, T: to, B: base, O: "0", L: ln, C: ln}
	case isStringT(to) && isIntegerT(from):
		sol.Declare("str_of_rune", "(declare-fun str_of_rune (Int) Int)")
		return mkInt("(str_of_rune "+v.S+")", to)
	case isFloatT(from) && isIntegerT(to) && strings.HasPrefix(v.S, "(dur_seconds "):
		// uintN(d.Seconds()): exact for whole seconds that fit the target (float64 holds them exactly) - assumption A12
		d := v.S[len("(dur_seconds ") : len(v.S)-1]
		r := mkInt(fx.fresh("secs", "Int"), to)
		st.assumeWF(r, false)
		_, hi, _ := intRange(to)
		q := tDivE(d, "1000000000")
		sol.Assert(tImp(tAnd(tEq(tModE(d, "1000000000"), "0"), tCmp("<=", "0", q), tCmp("<=", q, num(hi))), tEq(r.S, q)))
		return r
	case isFloatT(to) || isFloatT(from):
		name := "conv_" + sanitize(typeKey(from)) + "_" + sanitize(typeKey(to))
		sol.Declare(name, "(declare-fun "+name+" (Int) Int)")
		r := mkInt("("+name+" "+v.S+")", to)
		st.assumeWF(r, false)
		return r
	}
	vv := *v
	vv.T = to
	return &vv
}

func (fx *FnCtx) dyntype(s string) string {
	fx.sol.Declare("dyntype", "(declare-fun dyntype (Int) Int)")
	return "(dyntype " + s + ")"
}

// plainErrorType: a concrete type converted to error whose method set has neither Is nor Unwrap: errors.Is(e, t) is then
// just e == t (a pointer to such a type is comparable by identity).
func plainErrorType(from, to types.Type) bool {
	if !isErrorType(to) {
		return false
	}
	if _, isIface := from.Underlying().(*types.Interface); isIface {
		return false
	}
	if _, isPtr := from.Underlying().(*types.Pointer); !isPtr {
		return false
	}
	ms := types.NewMethodSet(from)
	for i := 0; i < ms.Len(); i++ {
		switch ms.At(i).Obj().Name() {
		case "Is", "Unwrap":
			return false
		}
	}
	return true
}

func (fx *FnCtx) makeInterface(st *State, v *Val, from, to types.Type) *Val {
	tag := fmt.Sprint(typeTag(from))
	if v.K == KInt && isRefLike(from) {
		if _, isIface := from.Underlying().(*types.Interface); !isIface {
			fx.sol.Assert(tImp(tNot(tEq(v.S, "0")), tEq(fx.dyntype(v.S), tag)))
		}
		if plainErrorType(from, to) && !hasBoundVar(v.S) {
			fx.errAxioms()
			fx.sol.Assert("(forall ((t Int)) (! (= (errIs " + v.S + " t) (= " + v.S + " t)) :pattern ((errIs " + v.S + " t))))")
		}
		r := *v
		r.T = to
		return &r
	}
	// box a non-pointer value
	r := st.alloc()
	fx.sol.Assert(tEq(fx.dyntype(r), tag))
	st.storeLoc(&Loc{Mem: true, Ref: r, Idx: "0", Root: "box:" + typeKey(from), T: from}, v)
	return &Val{K: KInt, T: to, S: r}
}

func (fx *FnCtx) implements(st *State, x string, iface types.Type) string {
	fx.sol.Declare("implements", "(declare-fun implements (Int Int) Bool)")
	return "(implements " + fx.dyntype(x) + " " + fmt.Sprint(typeTag(iface)) + ")"
}

func (fx *FnCtx) typeAssert(st *State, x *ssa.TypeAssert) {
	v := st.val(x.X)
	var ok string
	var res *Val
	if _, isIface := x.AssertedType.Underlying().(*types.Interface); isIface {
		if types.AssignableTo(x.X.Type(), x.AssertedType) {
			ok = tNot(tEq(v.S, "0"))
		} else {
			ok = tAnd(tNot(tEq(v.S, "0")), fx.implements(st, v.S, x.AssertedType))
		}
		r := *v
		r.T = x.AssertedType
		res = &r
	} else {
		tag := fmt.Sprint(typeTag(x.AssertedType))
		ok = tAnd(tNot(tEq(v.S, "0")), tEq(fx.dyntype(v.S), tag))
		if isRefLike(x.AssertedType) {
			res = mkInt(v.S, x.AssertedType)
		} else {
			res = st.loadLoc(&Loc{Mem: true, Ref: v.S, Idx: "0", Root: "box:" + typeKey(x.AssertedType), T: x.AssertedType})
		}
	}
	if x.CommaOk {
		okc := fx.fresh("taok", "Bool")
		fx.sol.Assert(tEq(okc, ok))
		st.env[x] = &Val{K: KTuple, T: x.Type(), Fs: []*Val{iteVal(okc, res, zeroVal(x.AssertedType)), mkBool(okc)}}
	} else {
		fx.oblige(st, fx.oname("safety", "type-assert"), "safety", nil, ok)
		st.env[x] = res
	}
}

func (fx *FnCtx) sliceOp(st *State, x *ssa.Slice) {
	var lo, hi, mx string
	if x.Low != nil {
		lo = st.val(x.Low).S
	} else {
		lo = "0"
	}
	switch u := x.X.Type().Underlying().(type) {
	case *types.Slice:
		sv := st.val(x.X)
		if x.High != nil {
			hi = st.val(x.High).S
		} else {
			hi = sv.L
		}
		if x.Max != nil {
			mx = st.val(x.Max).S
		} else {
			mx = sv.C
		}
		fx.oblige(st, fx.oname("safety", "slice-bounds"), "safety", nil, tAnd(tCmp("<=", "0", lo), tCmp("<=", lo, hi), tCmp("<=", hi, mx), tCmp("<=", mx, sv.C)))
		st.env[x] = &Val{K: KSlice, T: x.Type(), B: sv.B, O: tAdd(sv.O, lo), L: tSub(hi, lo), C: tSub(mx, lo)}
	case *types.Pointer:
		arr := u.Elem().Underlying().(*types.Array)
		pv := st.val(x.X)
		n := fmt.Sprint(arr.Len())
		if x.High != nil {
			hi = st.val(x.High).S
		} else {
			hi = n
		}
		if x.Max != nil {
			mx = st.val(x.Max).S
		} else {
			mx = n
		}
		fx.oblige(st, fx.oname("safety", "slice-bounds"), "safety", nil, tAnd(tCmp("<=", "0", lo), tCmp("<=", lo, hi), tCmp("<=", hi, mx), tCmp("<=", mx, n)))
		st.env[x] = &Val{K: KSlice, T: x.Type(), B: pv.S, O: lo, L: tSub(hi, lo), C: tSub(mx, lo)}
	default:
		if isStringT(x.X.Type()) {
			sv := st.val(x.X)
			fx.sol.Declare("strlen", "(declare-fun strlen (Int) Int)")
			fx.sol.Declare("substr", "(declare-fun substr (Int Int Int) Int)")
			if x.High != nil {
				hi = st.val(x.High).S
			} else {
				hi = "(strlen " + sv.S + ")"
			}
			fx.oblige(st, fx.oname("safety", "slice-bounds"), "safety", nil, tAnd(tCmp("<=", "0", lo), tCmp("<=", lo, hi), tCmp("<=", hi, "(strlen "+sv.S+")")))
			r := "(substr " + sv.S + " " + lo + " " + hi + ")"
			fx.sol.Assert(tAnd(tEq("(strlen "+r+")", tSub(hi, lo)), tCmp(">=", r, "0")))
			st.env[x] = mkInt(r, x.Type())
			return
		}
		fx.unsupported("slice of " + x.X.Type().String())
		st.env[x] = st.freshVal(x.Type(), "slice")
	}
}

// ---------- frames ----------

type assignTarget struct {
	kind  string // field | mem | obj | ghost | map | all
	key   string // heap key (field: exact leaf-key prefix)
	ref   string
	src   string
	loc   *Loc
	elemT types.Type
	mapT  *types.Map
}

func (fx *FnCtx) checkFrameStore(st *State, l *Loc) {
	if fx.con == nil || !fx.con.HasFrame {
		return
	}
	prefix := leafKey(l, "")
	var alts []string
	alts = append(alts, tCmp(">=", l.Ref, st.top0)) // freshly allocated in this call
	if l.Mem {
		// an array stored inside a freshly allocated object is addressed by -(ref*4096+k)
		alts = append(alts, tCmp("<=", l.Ref, "(- (* "+st.top0+" 4096))"))
	}
	for _, t := range fx.frameTgts {
		switch t.kind {
		case "all":
			return
		case "field":
			if !l.Mem && (prefix == t.key || strings.HasPrefix(prefix, t.key+".") || strings.HasPrefix(t.key, prefix+".") || strings.TrimSuffix(prefix, "|") == strings.TrimSuffix(t.key, "|")) {
				alts = append(alts, tEq(l.Ref, t.ref))
			}
		case "obj":
			if !l.Mem && strings.HasPrefix(prefix, t.key) {
				alts = append(alts, tEq(l.Ref, t.ref))
			}
		case "mem", "cell":
			if l.Mem && strings.HasPrefix(prefix, strings.TrimSuffix(t.key, "|")) {
				alts = append(alts, tEq(l.Ref, t.ref))
			}
		case "map":
			if l.Mem && strings.HasPrefix(prefix, "M|"+t.key) {
				alts = append(alts, tEq(l.Ref, t.ref))
			}
		}
	}
	what := prefix
	fx.oblige(st, fx.oname("frame", shortKey(what)), "frame", nil, tOr(alts...))
}

func shortKey(k string) string {
	return strings.TrimSuffix(strings.ReplaceAll(k, "|", "."), ".")
}

// ---------- returning ----------

func (fx *FnCtx) runDefers(st *State, fr *callFrame, k func(*State)) {
	if len(st.defers) <= fr.deferBase {
		k(st)
		return
	}
	d := st.defers[len(st.defers)-1]
	st.defers = st.defers[:len(st.defers)-1]
	fx.doCallVals(st, fr, d.site, d.call, d.fnv, d.args, func(st2 *State, _ *Val) {
		fx.runDefers(st2, fr, k)
	})
}

// staticAssignKeys over-approximates a contract's assigns clause by heap-key prefixes (whole field arrays / memories),
// using only static types: used to decide what a loop that calls the function may modify.
func (fx *FnCtx) staticAssignKeys(c *Contract, cf *ssa.Function, cc *ssa.CallCommon) ([]string, bool) {
	ptypes := map[string]types.Type{}
	var pkg *types.Package
	if cf != nil {
		for _, p := range cf.Params {
			ptypes[p.Name()] = p.Type()
		}
		for _, fv := range cf.FreeVars {
			if pt, ok := fv.Type().Underlying().(*types.Pointer); ok {
				ptypes[fv.Name()] = pt.Elem() // captured variables are cells
			}
		}
		if len(cf.Params) > 0 && cf.Signature.Recv() != nil {
			ptypes["recv"] = cf.Params[0].Type()
		}
		if cf.Pkg != nil {
			pkg = cf.Pkg.Pkg
		}
	} else {
		sig := cc.Signature()
		if cc.IsInvoke() {
			ptypes["recv"] = cc.Value.Type()
		}
		for i := 0; i < sig.Params().Len(); i++ {
			ptypes[fmt.Sprintf("arg%d", i)] = sig.Params().At(i).Type()
			if n := sig.Params().At(i).Name(); n != "" {
				ptypes[n] = sig.Params().At(i).Type()
			}
		}
	}
	var typeOf func(e Expr) types.Type
	typeOf = func(e Expr) types.Type {
		switch x := e.(type) {
		case *EIdent:
			return ptypes[x.Name]
		case *ESel:
			t := typeOf(x.X)
			if t == nil {
				return nil
			}
			_, ft := lookupField(t, pkg, x.Name)
			return ft
		case *EUnary:
			if x.Op == "*" {
				if t := typeOf(x.X); t != nil {
					if pt, ok := t.Underlying().(*types.Pointer); ok {
						return pt.Elem()
					}
				}
			}
		case *EIndex:
			if t := typeOf(x.X); t != nil {
				switch u := t.Underlying().(type) {
				case *types.Slice:
					return u.Elem()
				case *types.Map:
					return u.Elem()
				}
			}
		}
		return nil
	}
	var keys []string
	for _, a := range c.Assigns {
		switch x := a.(type) {
		case *EIdent:
			if g, ok := fx.eng.CS.GVars[x.Name]; ok {
				keys = append(keys, "G|"+g.Name)
			} else if x.Name == "timers" {
				keys = append(keys, "T|")
			} else if x.Name == "channels" {
				keys = append(keys, "X|")
			} else if t, ok := ptypes[x.Name]; ok && cf != nil {
				// captured variable (cell)
				keys = append(keys, "M|cell:"+typeKey(t)+"|")
			} else {
				return nil, false
			}
		case *EIndex:
			id, ok := x.X.(*EIdent)
			if !ok {
				return nil, false
			}
			if g, ok := fx.eng.CS.GVars[id.Name]; ok {
				keys = append(keys, "G|"+g.Name)
			} else {
				return nil, false
			}
		case *ESel:
			t := typeOf(x.X)
			if t == nil {
				return nil, false
			}
			pt, ok := t.Underlying().(*types.Pointer)
			if !ok {
				return nil, false
			}
			idx, _ := lookupField(t, pkg, x.Name)
			if idx == nil {
				return nil, false
			}
			var ps []string
			for _, i := range idx {
				ps = append(ps, fmt.Sprint(i))
			}
			_, root, cpath := canonField(pt.Elem(), strings.Join(ps, "."))
			keys = append(keys, "F|"+root+"|"+cpath)
		case *EUnary:
			t := typeOf(x.X)
			if x.Op != "*" || t == nil {
				return nil, false
			}
			pt, ok := t.Underlying().(*types.Pointer)
			if !ok {
				return nil, false
			}
			if kindOf(pt.Elem()) == KStruct {
				keys = append(keys, "F|"+typeKey(pt.Elem())+"|")
			} else {
				keys = append(keys, "M|cell:"+typeKey(pt.Elem())+"|")
			}
		case *ECall:
			if len(x.Args) != 1 {
				return nil, false
			}
			if x.Fun == "atomics" {
				keys = append(keys, "A|")
				continue
			}
			t := typeOf(x.Args[0])
			if t == nil {
				return nil, false
			}
			switch x.Fun {
			case "bytes", "mem":
				sl, ok := t.Underlying().(*types.Slice)
				if !ok {
					return nil, false
				}
				keys = append(keys, "M|"+typeKey(sl.Elem())+"|")
			case "obj":
				pt, ok := t.Underlying().(*types.Pointer)
				if !ok {
					return nil, false
				}
				keys = append(keys, "F|"+typeKey(pt.Elem())+"|")
			case "entries":
				mt, ok := t.Underlying().(*types.Map)
				if !ok {
					return nil, false
				}
				pk, nk := mapKeys(mt)
				keys = append(keys, pk, nk, "M|map:"+typeKey(mt)+"|")
			case "atomic", "atomics":
				keys = append(keys, "A|")
			default:
				return nil, false
			}
		default:
			return nil, false
		}
	}
	return keys, true
}
