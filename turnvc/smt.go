package main

// SMT-LIB term construction (strings, with light constant folding) and an incremental solver
// session (z3-new primary) with a non-incremental portfolio fallback (z3 4.8.12, cvc5).

import (
	"bufio"
	"bytes"
	"fmt"
	"io"
	"math/big"
	"os"
	"os/exec"
	"regexp"
	"strings"
	"sync"
	"sync/atomic"
	"time"
)

// ---------- terms ----------

func isNum(s string) (*big.Int, bool) {
	if s == "" {
		return nil, false
	}
	if strings.HasPrefix(s, "(- ") && strings.HasSuffix(s, ")") {
		in := s[3 : len(s)-1]
		for _, c := range in {
			if c < '0' || c > '9' {
				return nil, false
			}
		}
		n, ok := new(big.Int).SetString(in, 10)
		if !ok {
			return nil, false
		}
		return n.Neg(n), true
	}
	for _, c := range s {
		if c < '0' || c > '9' {
			return nil, false
		}
	}
	n, ok := new(big.Int).SetString(s, 10)
	return n, ok
}

func num(n *big.Int) string {
	if n.Sign() < 0 {
		return "(- " + new(big.Int).Neg(n).String() + ")"
	}
	return n.String()
}

func numI(n int64) string { return num(big.NewInt(n)) }

func tAdd(a, b string) string {
	x, ok1 := isNum(a)
	y, ok2 := isNum(b)
	if ok1 && ok2 {
		return num(new(big.Int).Add(x, y))
	}
	if ok1 && x.Sign() == 0 {
		return b
	}
	if ok2 && y.Sign() == 0 {
		return a
	}
	return "(+ " + a + " " + b + ")"
}

func tSub(a, b string) string {
	x, ok1 := isNum(a)
	y, ok2 := isNum(b)
	if ok1 && ok2 {
		return num(new(big.Int).Sub(x, y))
	}
	if ok2 && y.Sign() == 0 {
		return a
	}
	if a == b {
		return "0"
	}
	return "(- " + a + " " + b + ")"
}

func tMul(a, b string) string {
	x, ok1 := isNum(a)
	y, ok2 := isNum(b)
	if ok1 && ok2 {
		return num(new(big.Int).Mul(x, y))
	}
	if ok1 && x.Cmp(big.NewInt(1)) == 0 {
		return b
	}
	if ok2 && y.Cmp(big.NewInt(1)) == 0 {
		return a
	}
	if (ok1 && x.Sign() == 0) || (ok2 && y.Sign() == 0) {
		return "0"
	}
	return "(* " + a + " " + b + ")"
}

// Euclidean div/mod as in SMT-LIB (callers handle Go truncation).
func tDivE(a, b string) string {
	x, ok1 := isNum(a)
	y, ok2 := isNum(b)
	if ok1 && ok2 && y.Sign() != 0 {
		q, _ := new(big.Int).DivMod(x, y, new(big.Int))
		return num(q)
	}
	return "(div " + a + " " + b + ")"
}

func tModE(a, b string) string {
	x, ok1 := isNum(a)
	y, ok2 := isNum(b)
	if ok1 && ok2 && y.Sign() != 0 {
		_, m := new(big.Int).DivMod(x, y, new(big.Int))
		return num(m)
	}
	return "(mod " + a + " " + b + ")"
}

func tEq(a, b string) string {
	if a == b {
		return "true"
	}
	x, ok1 := isNum(a)
	y, ok2 := isNum(b)
	if ok1 && ok2 {
		if x.Cmp(y) == 0 {
			return "true"
		}
		return "false"
	}
	if (a == "true" && b == "false") || (a == "false" && b == "true") {
		return "false"
	}
	if a == "true" {
		return b
	}
	if b == "true" {
		return a
	}
	if a == "false" {
		return tNot(b)
	}
	if b == "false" {
		return tNot(a)
	}
	return "(= " + a + " " + b + ")"
}

func tCmp(op, a, b string) string {
	x, ok1 := isNum(a)
	y, ok2 := isNum(b)
	if ok1 && ok2 {
		c := x.Cmp(y)
		var r bool
		switch op {
		case "<":
			r = c < 0
		case "<=":
			r = c <= 0
		case ">":
			r = c > 0
		case ">=":
			r = c >= 0
		}
		if r {
			return "true"
		}
		return "false"
	}
	if a == b {
		if op == "<=" || op == ">=" {
			return "true"
		}
		return "false"
	}
	return "(" + op + " " + a + " " + b + ")"
}

func tNot(a string) string {
	switch a {
	case "true":
		return "false"
	case "false":
		return "true"
	}
	if strings.HasPrefix(a, "(not ") && balanced(a[5:len(a)-1]) {
		return a[5 : len(a)-1]
	}
	return "(not " + a + ")"
}

func balanced(s string) bool {
	d := 0
	for _, c := range s {
		if c == '(' {
			d++
		} else if c == ')' {
			d--
			if d < 0 {
				return false
			}
		}
	}
	return d == 0
}

func tAnd(xs ...string) string {
	var out []string
	for _, x := range xs {
		if x == "true" {
			continue
		}
		if x == "false" {
			return "false"
		}
		out = append(out, x)
	}
	switch len(out) {
	case 0:
		return "true"
	case 1:
		return out[0]
	}
	return "(and " + strings.Join(out, " ") + ")"
}

func tOr(xs ...string) string {
	var out []string
	for _, x := range xs {
		if x == "false" {
			continue
		}
		if x == "true" {
			return "true"
		}
		out = append(out, x)
	}
	switch len(out) {
	case 0:
		return "false"
	case 1:
		return out[0]
	}
	return "(or " + strings.Join(out, " ") + ")"
}

func tImp(a, b string) string {
	if a == "true" {
		return b
	}
	if a == "false" || b == "true" {
		return "true"
	}
	if b == "false" {
		return tNot(a)
	}
	return "(=> " + a + " " + b + ")"
}

func tIte(c, a, b string) string {
	if c == "true" {
		return a
	}
	if c == "false" {
		return b
	}
	if a == b {
		return a
	}
	return "(ite " + c + " " + a + " " + b + ")"
}

func tSel(arr, i string) string {
	// (select (store a i v) i) -> v  for syntactically identical index
	if strings.HasPrefix(arr, "(store ") {
		parts := splitTop(arr[7 : len(arr)-1])
		if len(parts) == 3 {
			if parts[1] == i {
				return parts[2]
			}
			x, ok1 := isNum(parts[1])
			y, ok2 := isNum(i)
			if ok1 && ok2 && x.Cmp(y) != 0 {
				return tSel(parts[0], i)
			}
		}
	}
	return "(select " + arr + " " + i + ")"
}

func tSto(arr, i, v string) string { return "(store " + arr + " " + i + " " + v + ")" }

// splitTop splits a sequence of s-expressions at top level.
func splitTop(s string) []string {
	var out []string
	d := 0
	start := -1
	for i, c := range s {
		switch {
		case c == '(':
			if d == 0 && start < 0 {
				start = i
			}
			d++
		case c == ')':
			d--
			if d == 0 {
				out = append(out, s[start:i+1])
				start = -1
			}
		case c == ' ' || c == '\n' || c == '\t':
			if d == 0 && start >= 0 {
				out = append(out, s[start:i])
				start = -1
			}
		default:
			if d == 0 && start < 0 {
				start = i
			}
		}
	}
	if start >= 0 {
		out = append(out, s[start:])
	}
	return out
}

// ---------- solver session ----------

type SolverStats struct {
	Queries   int64
	SolverNs  int64
	Fallbacks int64
	ByBackend sync.Map // string -> *int64
}

var gStats SolverStats
var dumpN int64

func (s *SolverStats) bump(backend string) {
	v, _ := s.ByBackend.LoadOrStore(backend, new(int64))
	atomic.AddInt64(v.(*int64), 1)
}

type frame struct {
	lines    []string
	declared map[string]bool
	id       int
}

type Solver struct {
	muted   int
	nframe  int
	sticky  [][2]string
	defs    map[string]defEntry // definition cache: normalised term -> name (valid while its frame is on the stack)
	decls   []string            // declarations are global: they survive pop (global-declarations)
	gdecl   map[string]bool
	cmd     *exec.Cmd
	in      io.WriteCloser
	out     *bufio.Reader
	frames  []*frame
	timeout int // ms per check
	dead    bool
	log     *os.File
}

const smtPrelude = `(set-option :produce-models true)
(set-option :global-declarations true)
(set-logic ALL)
`

func NewSolver(timeoutMs int) *Solver {
	s := &Solver{timeout: timeoutMs, gdecl: map[string]bool{}, defs: map[string]defEntry{}}
	s.frames = []*frame{{declared: map[string]bool{}}}
	s.start()
	return s
}

func (s *Solver) start() {
	t1 := s.timeout
	if t1 > 4000 {
		t1 = 4000
	}
	args := []string{"-in", fmt.Sprintf("-t:%d", t1)}
	if o := os.Getenv("TURNVC_Z3OPTS"); o != "" {
		args = append(args, strings.Fields(o)...)
	}
	s.cmd = exec.Command("z3-new", args...)
	s.in, _ = s.cmd.StdinPipe()
	o, _ := s.cmd.StdoutPipe()
	s.cmd.Stderr = nil
	s.out = bufio.NewReaderSize(o, 1<<20)
	if err := s.cmd.Start(); err != nil {
		s.dead = true
		return
	}
	s.dead = false
	io.WriteString(s.in, smtPrelude)
	for _, d := range s.decls {
		io.WriteString(s.in, d+"\n")
	}
	// replay frames (used on restart)
	for i, f := range s.frames {
		if i > 0 {
			io.WriteString(s.in, "(push 1)\n")
		}
		for _, l := range f.lines {
			io.WriteString(s.in, l+"\n")
		}
	}
}

func (s *Solver) Close() {
	if s.in != nil {
		s.in.Close()
	}
	if s.cmd != nil && s.cmd.Process != nil {
		s.cmd.Process.Kill()
		s.cmd.Wait()
	}
}

func (s *Solver) send(l string) {
	f := s.frames[len(s.frames)-1]
	f.lines = append(f.lines, l)
	if !s.dead {
		if _, err := io.WriteString(s.in, l+"\n"); err != nil {
			s.dead = true
		}
	}
}

func (s *Solver) Push() {
	s.nframe++
	s.frames = append(s.frames, &frame{declared: map[string]bool{}, id: s.nframe})
	if !s.dead {
		io.WriteString(s.in, "(push 1)\n")
	}
}

func (s *Solver) Pop() {
	s.frames = s.frames[:len(s.frames)-1]
	if !s.dead {
		io.WriteString(s.in, "(pop 1)\n")
	}
}

func (s *Solver) IsDeclared(name string) bool { return s.gdecl[name] }

func (s *Solver) Declare(name, decl string) {
	if s.gdecl[name] {
		return
	}
	s.gdecl[name] = true
	s.decls = append(s.decls, decl)
	if !s.dead {
		if _, err := io.WriteString(s.in, decl+"\n"); err != nil {
			s.dead = true
		}
	}
}

func (s *Solver) DeclareConst(name, sort string) {
	s.Declare(name, "(declare-fun "+name+" () "+sort+")")
}

func (s *Solver) Assert(t string) {
	if t == "true" || s.muted > 0 {
		return
	}
	s.send("(assert " + t + ")")
}

// script returns the whole current assertion stack as a flat script.
func (s *Solver) script() string {
	var b strings.Builder
	for _, d := range s.decls {
		b.WriteString(d)
		b.WriteByte('\n')
	}
	for _, f := range s.frames {
		for _, l := range f.lines {
			b.WriteString(l)
			b.WriteByte('\n')
		}
	}
	return b.String()
}

func (s *Solver) readLine() (string, error) {
	type res struct {
		l   string
		err error
	}
	ch := make(chan res, 1)
	go func() {
		l, err := s.out.ReadString('\n')
		ch <- res{l, err}
	}()
	select {
	case r := <-ch:
		return strings.TrimSpace(r.l), r.err
	case <-time.After(time.Duration(s.timeout+5000) * time.Millisecond):
		return "", fmt.Errorf("solver read timeout")
	}
}

func (s *Solver) readSexp() (string, error) {
	var b strings.Builder
	d := 0
	started := false
	for {
		l, err := s.readLine()
		if err != nil {
			return b.String(), err
		}
		b.WriteString(l)
		b.WriteByte('\n')
		for _, c := range l {
			if c == '(' {
				d++
				started = true
			} else if c == ')' {
				d--
			}
		}
		if (started && d <= 0) || (!started && l != "") {
			return b.String(), nil
		}
	}
}

type CheckResult struct {
	Status  string // unsat | sat | unknown
	Backend string
	Ms      float64
	Model   map[string]string
	Raw     string
}

// CheckNeg decides whether `goal` follows from the current stack: pushes (not goal), checks, pops.
// wantModel lists terms to evaluate when sat.
func (s *Solver) CheckNeg(goal string, onSat func(get func([]string) map[string]string)) CheckResult {
	var wantModel []string
	if goal == "true" {
		return CheckResult{Status: "unsat", Backend: "syntactic"}
	}
	t0 := time.Now()
	s.restick()
	atomic.AddInt64(&gStats.Queries, 1)
	res := CheckResult{Status: "unknown", Backend: "z3-new(incremental)"}
	if !s.dead {
		io.WriteString(s.in, "(push 1)\n(assert (not "+goal+"))\n(check-sat)\n")
		l, err := s.readLine()
		if err != nil {
			s.dead = true
			s.Close()
		} else {
			for strings.HasPrefix(l, "(error") || strings.HasPrefix(l, "unsupported") || l == "" {
				if strings.HasPrefix(l, "(error") {
					res.Raw += l + "\n"
				}
				l, err = s.readLine()
				if err != nil {
					s.dead = true
					break
				}
			}
			if l == "sat" || l == "unsat" || l == "unknown" {
				res.Status = l
			}
			if res.Status == "sat" && onSat != nil && !s.dead {
				onSat(func(terms []string) map[string]string {
					if len(terms) == 0 || s.dead {
						return map[string]string{}
					}
					io.WriteString(s.in, "(get-value ("+strings.Join(terms, " ")+"))\n")
					m, err := s.readSexp()
					if err != nil {
						s.dead = true
						return map[string]string{}
					}
					return parseModel(m, terms)
				})
			}
			if !s.dead {
				io.WriteString(s.in, "(pop 1)\n")
			}
		}
	}
	if res.Status == "unknown" && res.Raw == "" {
		// quantifier-free relaxation: dropping assumptions is sound for `unsat`
		var b strings.Builder
		for _, d := range s.decls {
			b.WriteString(d)
			b.WriteByte('\n')
		}
		for _, f := range s.frames {
			for _, l := range f.lines {
				if strings.Contains(l, "(forall ") || strings.Contains(l, "(exists ") {
					continue
				}
				b.WriteString(l)
				b.WriteByte('\n')
			}
		}
		if !strings.Contains(goal, "(forall ") && !strings.Contains(goal, "(exists ") {
			st, _ := runSolver("z3-new", []string{"-in", "-T:5"}, smtPrelude+b.String()+"(assert (not "+goal+"))\n(check-sat)\n", 5000)
			if st == "unsat" {
				res.Status = "unsat"
				res.Backend = "z3-new(quantifier-free relaxation)"
			} else if st == "sat" {
				res.Raw = "quantifier-free relaxation is sat; "
			}
		}
	}
	if res.Status == "unknown" || strings.Contains(res.Raw, "(error") {
		// portfolio fallback, non-incremental
		atomic.AddInt64(&gStats.Fallbacks, 1)
		r2 := portfolio(s.script(), goal, wantModel, s.timeout)
		if r2.Status != "unknown" {
			r2.Raw = res.Raw + r2.Raw
			res = r2
		} else {
			res.Raw += r2.Raw
		}
		if s.dead {
			s.start()
		}
	}
	res.Ms = float64(time.Since(t0).Microseconds()) / 1000
	if d := os.Getenv("TURNVC_DUMP"); d != "" && (res.Ms > 800 || res.Status != "unsat") {
		n := atomic.AddInt64(&dumpN, 1)
		os.WriteFile(fmt.Sprintf("%s/q%d_%s.smt2", d, n, res.Status), []byte(smtPrelude+s.script()+"(assert (not "+goal+"))\n(check-sat)\n"), 0o644)
	}
	atomic.AddInt64(&gStats.SolverNs, int64(time.Since(t0)))
	gStats.bump(res.Backend)
	return res
}

// Feasible: quick satisfiability probe of the current stack (short timeout; unknown counts as feasible).
func (s *Solver) Feasible() bool { return s.FeasibleT(300) }

// FeasibleT: false only when the current stack is refuted within ms milliseconds.
func (s *Solver) FeasibleT(ms int) bool {
	if s.dead {
		return true
	}
	s.restick()
	io.WriteString(s.in, "(set-option :timeout "+fmt.Sprint(ms)+")\n(check-sat)\n(set-option :timeout "+fmt.Sprint(min(s.timeout, 4000))+")\n")
	l, err := s.readLine()
	if err != nil {
		s.dead = true
		s.Close()
		s.start()
		return true
	}
	return l != "unsat"
}

// CheckSat checks satisfiability of the current stack plus extra (vacuity / cover checks).
func (s *Solver) CheckSat(extra string) CheckResult {
	r := s.CheckNeg(tNot(extra), nil)
	// CheckNeg(not extra): unsat means extra is entailed-false, i.e. stack+extra unsatisfiable
	return r
}

func parseModel(m string, want []string) map[string]string {
	out := map[string]string{}
	m = strings.TrimSpace(m)
	if !strings.HasPrefix(m, "(") {
		return out
	}
	parts := splitTop(m[1 : len(m)-1])
	i := 0
	for _, p := range parts {
		if !strings.HasPrefix(p, "(") {
			continue
		}
		kv := splitTop(p[1 : len(p)-1])
		if len(kv) == 2 && i < len(want) {
			out[want[i]] = kv[1]
		}
		i++
	}
	return out
}

var solverSem = make(chan struct{}, 16)

func runSolver(name string, args []string, script string, timeoutMs int) (string, string) {
	solverSem <- struct{}{}
	defer func() { <-solverSem }()
	cmd := exec.Command(name, args...)
	cmd.Stdin = strings.NewReader(script)
	var out bytes.Buffer
	cmd.Stdout = &out
	cmd.Stderr = &out
	done := make(chan error, 1)
	if err := cmd.Start(); err != nil {
		return "unknown", err.Error()
	}
	go func() { done <- cmd.Wait() }()
	select {
	case <-done:
	case <-time.After(time.Duration(timeoutMs+3000) * time.Millisecond):
		cmd.Process.Kill()
		<-done
	}
	o := out.String()
	first := strings.TrimSpace(strings.SplitN(o, "\n", 2)[0])
	if first != "sat" && first != "unsat" {
		first = "unknown"
	}
	return first, o
}

// portfolio runs the three back ends on a flat script; first decisive answer wins.
func portfolio(script, goal string, wantModel []string, timeoutMs int) CheckResult {
	q := smtPrelude + script + "(assert (not " + goal + "))\n(check-sat)\n"
	if len(wantModel) > 0 {
		q += "(get-value (" + strings.Join(wantModel, " ") + "))\n"
	}
	type r struct {
		st, raw, be string
	}
	ch := make(chan r, 3)
	go func() {
		st, raw := runSolver("z3-new", []string{"-in", fmt.Sprintf("-T:%d", timeoutMs/1000+1)}, q, timeoutMs)
		ch <- r{st, raw, "z3-new"}
	}()
	go func() {
		st, raw := runSolver("z3", []string{"-in", fmt.Sprintf("-T:%d", timeoutMs/1000+1)}, q, timeoutMs)
		ch <- r{st, raw, "z3-4.8.12"}
	}()
	go func() {
		// cvc5: produce-models must precede set-logic (it does in the prelude)
		st, raw := runSolver("cvc5", []string{"--lang=smt2", fmt.Sprintf("--tlimit=%d", timeoutMs)}, q, timeoutMs)
		ch <- r{st, raw, "cvc5"}
	}()
	res := CheckResult{Status: "unknown", Backend: "portfolio"}
	var raws []string
	for i := 0; i < 3; i++ {
		x := <-ch
		if x.st == "sat" || x.st == "unsat" {
			res.Status = x.st
			res.Backend = x.be
			if x.st == "sat" && len(wantModel) > 0 {
				idx := strings.Index(x.raw, "\n")
				if idx >= 0 {
					res.Model = parseModel(x.raw[idx+1:], wantModel)
				}
			}
			return res
		}
		raws = append(raws, x.be+": "+firstLines(x.raw, 3))
	}
	res.Raw = strings.Join(raws, " | ")
	return res
}

func firstLines(s string, n int) string {
	ls := strings.Split(strings.TrimSpace(s), "\n")
	if len(ls) > n {
		ls = ls[:n]
	}
	return strings.Join(ls, " / ")
}

type defEntry struct {
	name  string
	frame int
}

func (s *Solver) frameActive(id int) bool {
	for _, f := range s.frames {
		if f.id == id {
			return true
		}
	}
	return false
}

var qnameRe = regexp.MustCompile(`\bq_[A-Za-z0-9]+_\d+`)

var boundRe = regexp.MustCompile(`(^|[ (])q_[A-Za-z0-9]+_\d+`)

// hasBoundVar: does the term mention a quantifier-bound variable (named q_<name>_<n> by the spec evaluator)?
func hasBoundVar(t string) bool { return boundRe.MatchString(t) }

func normaliseBound(t string) string {
	seen := map[string]string{}
	return qnameRe.ReplaceAllStringFunc(t, func(m string) string {
		if r, ok := seen[m]; ok {
			return r
		}
		r := fmt.Sprintf("q@%d", len(seen))
		seen[m] = r
		return r
	})
}

// Define returns a constant equal to term, reusing an earlier definition of the same (alpha-normalised) term
// when that definition is still on the assertion stack.
func (s *Solver) Define(hint, term, sort string, fresh func(hint, sort string) string) string {
	key := sort + "|" + normaliseBound(term)
	if e, ok := s.defs[key]; ok && s.frameActive(e.frame) {
		return e.name
	}
	n := fresh(hint, sort)
	s.Assert("(= " + n + " " + term + ")")
	s.defs[key] = defEntry{n, s.frames[len(s.frames)-1].id}
	return n
}

// Sticky registers a frame-independent fact (an axiom): it is asserted now and re-asserted before any later check
// made after the frame holding it was popped.
func (s *Solver) Sticky(t string) {
	key := "assert|" + normaliseBound(t)
	for _, k := range s.sticky {
		if k[0] == key {
			return
		}
	}
	s.sticky = append(s.sticky, [2]string{key, t})
	s.restick()
}

func (s *Solver) restick() {
	for _, k := range s.sticky {
		if e, ok := s.defs[k[0]]; ok && s.frameActive(e.frame) {
			continue
		}
		s.Assert(k[1])
		s.defs[k[0]] = defEntry{"", s.frames[len(s.frames)-1].id}
	}
}

// AssertOnce asserts a formula unless the same (alpha-normalised) formula is already on the stack.
func (s *Solver) AssertOnce(t string) {
	key := "assert|" + normaliseBound(t)
	if e, ok := s.defs[key]; ok && s.frameActive(e.frame) {
		return
	}
	s.Assert(t)
	s.defs[key] = defEntry{"", s.frames[len(s.frames)-1].id}
}

func (s *Solver) nlines() int {
	n := 0
	for _, f := range s.frames {
		n += len(f.lines)
	}
	return n
}
