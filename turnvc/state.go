package main

// Symbolic state: SSA environment, heap (per-field arrays, element memory), allocation counter.

import (
	"fmt"
	"go/types"
	"os"
	"runtime"
	"sort"
	"strconv"
	"strings"
	"sync"

	"golang.org/x/tools/go/ssa"
)

// Loc is a storage location: an object field (possibly nested, possibly the whole object) or an element
// of slice/array/cell memory.
type Loc struct {
	Mem   bool
	Ref   string // object reference, or memory base
	Idx   string // memory index (Mem)
	Root  string // type key of the root struct (field) or of the memory element type (Mem)
	Path  string // field path inside the root / element
	T     types.Type
	RootT types.Type
}

type deferRec struct {
	call *ssa.CallCommon
	args []*Val // evaluated at defer time (including receiver / closure)
	fnv  *Val
	site ssa.Instruction
}

type State struct {
	fx        *FnCtx
	env       map[ssa.Value]*Val
	locs      map[ssa.Value]*Loc
	heap      map[string]string
	epoch     int
	kep       map[string]int // per-key epoch overriding epoch (after a havoc of that key)
	allocTop  string
	top0      string
	defers    []*deferRec
	path      []int
	fuel      int
	variants  map[*ssa.BasicBlock]string
	iters     map[ssa.Value]*iterInfo
	kpre      []prefixEpoch
	lastIter  *iterInfo
	curPoint  point
	lockEpoch *int
	conds     []string // branch conditions taken so far (for state merging)
	wfGuard   string
	wfSink    *[]string // when set, type-invariant facts are collected (inside quantifier bodies) instead of asserted
}

type prefixEpoch struct {
	p  string
	ep int
}

type iterInfo struct {
	m    *Val
	id   string
	mapT *types.Map
}

func (st *State) clone() *State {
	c := &State{fx: st.fx, epoch: st.epoch, allocTop: st.allocTop, top0: st.top0, fuel: st.fuel, lastIter: st.lastIter, curPoint: st.curPoint}
	c.kpre = append([]prefixEpoch{}, st.kpre...)
	c.conds = append([]string{}, st.conds...)
	c.kep = make(map[string]int, len(st.kep))
	for k, v := range st.kep {
		c.kep[k] = v
	}
	c.variants = make(map[*ssa.BasicBlock]string, len(st.variants))
	for k, v := range st.variants {
		c.variants[k] = v
	}
	c.iters = make(map[ssa.Value]*iterInfo, len(st.iters))
	for k, v := range st.iters {
		c.iters[k] = v
	}
	c.env = make(map[ssa.Value]*Val, len(st.env))
	for k, v := range st.env {
		c.env[k] = v
	}
	c.locs = make(map[ssa.Value]*Loc, len(st.locs))
	for k, v := range st.locs {
		c.locs[k] = v
	}
	c.heap = make(map[string]string, len(st.heap))
	for k, v := range st.heap {
		c.heap[k] = v
	}
	c.defers = append([]*deferRec{}, st.defers...)
	c.path = append([]int{}, st.path...)
	return c
}

// snapshot copies only the heap-related part (used for old()).
func (st *State) snapshot() *State {
	c := &State{fx: st.fx, epoch: st.epoch, allocTop: st.allocTop, top0: st.top0}
	c.kpre = append([]prefixEpoch{}, st.kpre...)
	c.kep = make(map[string]int, len(st.kep))
	for k, v := range st.kep {
		c.kep[k] = v
	}
	c.heap = make(map[string]string, len(st.heap))
	for k, v := range st.heap {
		c.heap[k] = v
	}
	c.env = st.env
	c.locs = st.locs
	return c
}

// ---------- global registries (shared by all functions of a run) ----------

var regMu sync.Mutex
var addrIDs = map[string]int{}
var typeTags = map[string]int{}
var typeTagTypes = map[int]types.Type{}
var strIDs = map[string]int{}

func addrID(key string) int {
	regMu.Lock()
	defer regMu.Unlock()
	if v, ok := addrIDs[key]; ok {
		return v
	}
	addrIDs[key] = len(addrIDs) + 1
	return addrIDs[key]
}

func typeTag(t types.Type) int {
	k := typeKey(t)
	regMu.Lock()
	defer regMu.Unlock()
	if v, ok := typeTags[k]; ok {
		return v
	}
	typeTags[k] = len(typeTags) + 1
	typeTagTypes[typeTags[k]] = t
	return typeTags[k]
}

// string literals get fixed ids: "" is 0, others 1,2,... (distinct numerals => distinct strings)
func strID(s string) int {
	if s == "" {
		return 0
	}
	regMu.Lock()
	defer regMu.Unlock()
	if v, ok := strIDs[s]; ok {
		return v
	}
	strIDs[s] = len(strIDs) + 1
	return strIDs[s]
}

// ---------- heap ----------

func heapSort(key string, leafSort string) string {
	if strings.HasPrefix(key, "M|") {
		return "(Array Int (Array Int " + leafSort + "))"
	}
	return "(Array Int " + leafSort + ")"
}

func (st *State) heapGet(key, sort string) string {
	if st.fx.readLog != nil {
		if _, seen := st.fx.readSeen[key]; !seen {
			st.fx.readSeen[key] = sort
			*st.fx.readLog = append(*st.fx.readLog, key)
		}
	}
	if t, ok := st.heap[key]; ok {
		return t
	}
	if os.Getenv("TVDBG") != "" {
		fmt.Fprintln(os.Stderr, "heapGet-miss", key)
	}
	ep := st.epoch
	if strings.HasPrefix(key, "L|") || strings.HasPrefix(key, "R|") {
		ep = 0 // lock hold counts survive calls (callees are balanced: their own lock-balance obligation / assumption for callbacks)
	}
	if e, ok := st.kep[key]; ok && e > ep {
		ep = e
	}
	for _, pe := range st.kpre {
		if pe.ep > ep && strings.HasPrefix(key, pe.p) {
			ep = pe.ep
		}
	}
	st.fx.keySorts[key] = sort
	if ep == 0 && (strings.HasPrefix(key, "L|") || strings.HasPrefix(key, "R|")) {
		// no lock is held by this execution when the function under verification starts
		st.heap[key] = zeroLocks
		return zeroLocks
	}
	name := fmt.Sprintf("H%d_%s", ep, sanitize(key))
	st.fx.sol.DeclareConst(name, sort)
	st.heap[key] = name
	return name
}

func (st *State) heapSet(key, sort, term string) {
	if os.Getenv("TVDBG") != "" {
		fmt.Fprintln(os.Stderr, "heapSet", key)
	}
	st.heap[key] = term
	st.fx.keySorts[key] = sort
}

// havocAll forgets every heap array and ghost variable (call to code without a frame).
func (st *State) havocAll() {
	if os.Getenv("TVDBG4") != "" {
		buf := make([]byte, 2048)
		buf = buf[:runtime.Stack(buf, false)]
		fmt.Fprintf(os.Stderr, "HAVOCALL %s\n", strings.ReplaceAll(string(buf), "\n", " | ")[:1200])
	}
	st.fx.nfresh++
	st.epoch = st.fx.nfresh
	st.heap = map[string]string{}
	st.kep = map[string]int{}
	st.kpre = nil
	nt := st.fx.fresh("top", "Int")
	st.fx.sol.Assert(tCmp(">=", nt, st.allocTop))
	st.allocTop = nt
}

func (st *State) havocKey(key string) {
	st.fx.nfresh++
	st.kep[key] = st.fx.nfresh
	delete(st.heap, key)
}

func leafKey(l *Loc, leafPath string) string {
	p := "F|"
	if l.Mem {
		p = "M|"
	}
	if !l.Mem && l.RootT != nil {
		_, root, path := canonField(l.RootT, joinPath(l.Path, leafPath))
		return p + root + "|" + path
	}
	return p + l.Root + "|" + joinPath(l.Path, leafPath)
}

// canonField: storage of an embedded (anonymous, by-value) named struct field is the storage of the embedded type,
// indexed by the enclosing object's reference: &outer.Embedded and outer denote the same object for the embedded
// type's fields, which is how methods of the embedded type (called with the interior pointer) see it. Sound because an
// object embeds a given struct type at most once.
func canonField(rootT types.Type, path string) (types.Type, string, string) {
	root := typeKey(rootT)
	if path == "" {
		return rootT, root, path
	}
	parts := strings.Split(path, ".")
	var out []string
	t := rootT
	for i, p := range parts {
		idx, err := strconv.Atoi(p)
		st, ok := t.Underlying().(*types.Struct)
		if err != nil || !ok || idx >= st.NumFields() {
			out = append(out, parts[i:]...)
			break
		}
		f := st.Field(idx)
		if _, isStruct := f.Type().Underlying().(*types.Struct); isStruct && f.Embedded() && !isOpaqueStruct(f.Type()) {
			if _, named := f.Type().(*types.Named); named {
				root = typeKey(f.Type())
				rootT = f.Type()
				out = nil
				t = f.Type()
				continue
			}
		}
		out = append(out, p)
		t = f.Type()
	}
	return rootT, root, strings.Join(out, ".")
}

func (st *State) locAddr(l *Loc, leafPath string) string {
	if l.Mem {
		st.fx.unsupported("address of an array stored inside slice memory")
		return st.fx.fresh("addr", "Int")
	}
	id := addrID(l.Root + "|" + joinPath(l.Path, leafPath))
	return "(- (+ (* " + l.Ref + " 4096) " + fmt.Sprint(id) + "))"
}

func arrElemKey(t types.Type) (string, string) {
	a := t.Underlying().(*types.Array)
	s := "Int"
	if kindOf(a.Elem()) == KBool {
		s = "Bool"
	}
	return "M|" + typeKey(a.Elem()) + "|", s
}

func (st *State) loadLoc(l *Loc) *Val {
	var ls []leaf
	leavesOf(l.T, "", &ls)
	xs := make([]string, len(ls))
	for i, lf := range ls {
		if lf.arr {
			mk, es := arrElemKey(lf.t)
			m := st.heapGet(mk, heapSort(mk, es))
			xs[i] = tSel(m, st.locAddr(l, lf.path))
			continue
		}
		key := leafKey(l, lf.path)
		arr := st.heapGet(key, heapSort(key, lf.sort))
		var t string
		if l.Mem {
			t = tSel(tSel(arr, l.Ref), l.Idx)
		} else {
			t = tSel(arr, l.Ref)
		}
		if st.wfSink == nil && len(t) > 120 {
			// name big terms (sharing); not under a quantifier, where the term may mention bound variables
			t = st.fx.sol.Define("ld", t, lf.sort, st.fx.fresh)
		}
		xs[i] = t
	}
	i := 0
	v := unflat(l.T, xs, &i)
	// values read from heap arrays that were never written since entry were allocated before entry
	initial := true
	for _, lf := range ls {
		if lf.arr {
			continue
		}
		if t := st.heap[leafKey(l, lf.path)]; !strings.HasPrefix(t, "H0_") {
			initial = false
		}
	}
	if initial {
		// only cells of objects that existed at entry (index below top0) are known to hold pre-entry references
		st.wfGuard = tCmp("<", l.Ref, st.top0)
	}
	st.assumeWF(v, initial)
	st.wfGuard = ""
	return v
}

func (st *State) storeLoc(l *Loc, v *Val) {
	var ls []leaf
	leavesOf(l.T, "", &ls)
	var xs []string
	v.flat(&xs)
	if len(xs) != len(ls) {
		st.fx.unsupported(fmt.Sprintf("store shape mismatch %v (%d leaves) <- %d", l.T, len(ls), len(xs)))
		return
	}
	for i, lf := range ls {
		if lf.arr {
			mk, es := arrElemKey(lf.t)
			m := st.heapGet(mk, heapSort(mk, es))
			st.heapSet(mk, heapSort(mk, es), tSto(m, st.locAddr(l, lf.path), xs[i]))
			continue
		}
		key := leafKey(l, lf.path)
		sort := heapSort(key, lf.sort)
		arr := st.heapGet(key, sort)
		if l.Mem {
			st.heapSet(key, sort, tSto(arr, l.Ref, tSto(tSel(arr, l.Ref), l.Idx, xs[i])))
		} else {
			st.heapSet(key, sort, tSto(arr, l.Ref, xs[i]))
		}
	}
}

// subLoc returns the location of field i of the struct at l.
func subLoc(l *Loc, i int, ft types.Type) *Loc {
	return &Loc{Mem: l.Mem, Ref: l.Ref, Idx: l.Idx, Root: l.Root, Path: joinPath(l.Path, fmt.Sprint(i)), T: ft, RootT: l.RootT}
}

// objLoc: location of the whole object a pointer of static type *T points to.
func (st *State) objLoc(ptr string, pointee types.Type) *Loc {
	switch kindOf(pointee) {
	case KStruct:
		return &Loc{Ref: ptr, Root: typeKey(pointee), T: pointee, RootT: pointee}
	case KArr:
		// pointer to array: ptr is the memory base; whole-array access handled by callers
		return &Loc{Mem: true, Ref: ptr, Idx: "0", Root: typeKey(pointee.Underlying().(*types.Array).Elem()), T: pointee, RootT: pointee.Underlying().(*types.Array).Elem()}
	default:
		// single variables (locals whose address is taken, captured variables, globals, *T out-parameters) live in
		// their own memory space: they never overlap the backing arrays of slices
		return &Loc{Mem: true, Ref: ptr, Idx: "0", Root: "cell:" + typeKey(pointee), T: pointee, RootT: pointee}
	}
}

// ---------- fresh / zero values ----------

func (fx *FnCtx) fresh(hint, sort string) string {
	fx.nfresh++
	n := fmt.Sprintf("%s_%d", sanitize(hint), fx.nfresh)
	fx.sol.DeclareConst(n, sort)
	return n
}

func (st *State) freshVal(t types.Type, hint string) *Val {
	var ls []leaf
	leavesOf(t, "", &ls)
	xs := make([]string, len(ls))
	for i, lf := range ls {
		s := lf.sort
		if lf.arr {
			_, es := arrElemKey(lf.t)
			s = "(Array Int " + es + ")"
		}
		xs[i] = st.fx.fresh(hint+"_"+lf.path, s)
	}
	i := 0
	v := unflat(t, xs, &i)
	st.assumeWF(v, false)
	return v
}

func zeroVal(t types.Type) *Val {
	var ls []leaf
	leavesOf(t, "", &ls)
	xs := make([]string, len(ls))
	for i, lf := range ls {
		switch {
		case lf.arr:
			_, es := arrElemKey(lf.t)
			if es == "Bool" {
				xs[i] = "((as const (Array Int Bool)) false)"
			} else {
				xs[i] = "((as const (Array Int Int)) 0)"
			}
		case lf.sort == "Bool":
			xs[i] = "false"
		default:
			xs[i] = "0"
		}
	}
	i := 0
	return unflat(t, xs, &i)
}

const maxAlloc = "281474976710656" // 2^48: Go's maxAlloc on 64-bit platforms (assumption A10)

// assumeWF asserts the type invariants of a value read from the environment or the heap.
func (st *State) assumeWF(v *Val, initial bool) {
	sol := wfAsserter{st}
	switch v.K {
	case KInt:
		if v.T == nil {
			return
		}
		if _, isN := isNum(v.S); isN {
			return
		}
		if f := rangeFact(v.S, v.T); f != "true" {
			sol.Assert(f)
		} else if isRefLike(v.T) || isStringT(v.T) {
			sol.Assert(tCmp(">=", v.S, "0"))
			if isRefLike(v.T) {
				if initial {
					sol.Assert(tCmp("<", v.S, st.allocTop))
					sol.Assert(tImp(st.guardOrTrue(), tCmp("<", v.S, st.top0)))
				} else {
					sol.Assert(tCmp("<", v.S, st.allocTop))
				}
			}
		}
	case KSlice:
		top := st.allocTop
		if initial {
			sol.Assert(tImp(st.guardOrTrue(), tCmp("<", v.B, st.top0)))
		}
		sol.Assert(tAnd(tCmp(">=", v.B, "0"), tCmp("<", v.B, top), tCmp(">=", v.O, "0"), tCmp(">=", v.L, "0"), tCmp("<=", v.L, v.C),
			tCmp("<=", tAdd(v.O, v.C), maxAlloc),
			tImp(tEq(v.B, "0"), tAnd(tEq(v.C, "0"), tEq(v.O, "0")))))
	case KStruct, KTuple:
		for _, f := range v.Fs {
			st.assumeWF(f, initial)
		}
	}
}

func (st *State) alloc() string {
	r := st.allocTop
	st.allocTop = tAdd(r, "1")
	return r
}

// ---------- reading values of SSA operands ----------

func sortedHeapKeys(m map[string]string) []string {
	var ks []string
	for k := range m {
		ks = append(ks, k)
	}
	sort.Strings(ks)
	return ks
}

// fieldNames turns an index path ("3.1") relative to root type t into dotted field names.
func fieldNames(t types.Type, path string) string {
	if path == "" || t == nil {
		return ""
	}
	var out []string
	cur := t
	for _, p := range strings.Split(path, ".") {
		st, ok := cur.Underlying().(*types.Struct)
		if !ok {
			out = append(out, p)
			continue
		}
		var i int
		fmt.Sscanf(p, "%d", &i)
		if i >= st.NumFields() {
			out = append(out, p)
			continue
		}
		out = append(out, st.Field(i).Name())
		cur = st.Field(i).Type()
	}
	return strings.Join(out, ".")
}

func (l *Loc) className() string {
	if l.RootT != nil && !l.Mem {
		rt, _, p := canonField(l.RootT, l.Path)
		return typeKey(rt) + "." + fieldNames(rt, p)
	}
	return l.Root + "|" + l.Path
}

type wfAsserter struct{ st *State }

func (w wfAsserter) Assert(t string) {
	if t == "true" {
		return
	}
	if w.st.wfSink != nil {
		*w.st.wfSink = append(*w.st.wfSink, t)
		return
	}
	w.st.fx.sol.Assert(t)
}

const zeroLocks = "((as const (Array Int Int)) 0)"

func (st *State) guardOrTrue() string {
	if st.wfGuard == "" {
		return "true"
	}
	return st.wfGuard
}
