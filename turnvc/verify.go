package main

// Per-function verification: entry state, loop cutting, postconditions, lock balance, model extraction.

import (
	"fmt"
	"go/ast"
	"go/types"
	"os"
	"regexp"
	"runtime"
	"sort"
	"strings"
	"time"

	"golang.org/x/tools/go/ssa"
)

type FnResult struct {
	Func             string          `json:"func"`
	File             string          `json:"file"`
	Paths            int             `json:"paths"`
	Loops            int             `json:"loops"`
	LoopsWithInv     int             `json:"loops_with_invariant"`
	Obligations      []*Obligation   `json:"obligations"`
	Unsupported      []string        `json:"unsupported,omitempty"`
	Notes            []string        `json:"notes,omitempty"`
	Vacuous          bool            `json:"vacuous_precondition,omitempty"`
	WallMs           float64         `json:"wall_ms"`
	Canary           string          `json:"canary,omitempty"`
	Covers           map[string]bool `json:"covers,omitempty"`
	ReachableReturns int             `json:"reachable_return_paths"`
}

type ModelInputs struct {
	Scalars map[string]string `json:"scalars,omitempty"`
	Bytes   map[string][]int  `json:"bytes,omitempty"`
}

func (e *Engine) VerifyFunction(fn *ssa.Function, con *Contract) (res *FnResult) {
	t0 := time.Now()
	fx := &FnCtx{eng: e, fn: fn, con: con, obls: map[string]*Obligation{}, heapSorts: map[string]string{}, loops: map[*ssa.BasicBlock]*loopInfo{},
		unsup: map[string]bool{}, notes: map[string]bool{}, params: map[string]*Val{}, maxPaths: 6000, keySorts: map[string]string{}, locksTouched: map[string]bool{}, covers: map[string]bool{}, exercised: map[*AtCall]bool{}, ipdomCache: map[*ssa.Function]map[*ssa.BasicBlock]*ssa.BasicBlock{}, joinCache: map[joinKey]*ssa.BasicBlock{}}
	fx.noMerge = os.Getenv("TURNVC_NOMERGE") != ""
	fx.sol = NewSolver(e.TimeoutMs)
	defer fx.sol.Close()
	res = &FnResult{Func: shortFn(fn.String())}
	if fn.Pos().IsValid() {
		p := e.Prog.Fset.Position(fn.Pos())
		res.File = strings.TrimPrefix(p.Filename, e.RepoDir+"/")
	}
	defer func() {
		if r := recover(); r != nil {
			buf := make([]byte, 4096)
			buf = buf[:runtime.Stack(buf, false)]
			fx.unsupported(fmt.Sprintf("engine panic: %v %s", r, strings.ReplaceAll(string(buf), "\n", " | ")))
			fx.finish(res, t0)
		}
	}()
	if fn.Blocks == nil {
		fx.unsupported("no body")
		fx.finish(res, t0)
		return res
	}
	fx.findLoops(fn)
	st := &State{fx: fx, env: map[ssa.Value]*Val{}, locs: map[ssa.Value]*Loc{}, heap: map[string]string{}, kep: map[string]int{}, fuel: 4000,
		variants: map[*ssa.BasicBlock]string{}, iters: map[ssa.Value]*iterInfo{}}
	fx.sol.DeclareConst("top0", "Int")
	fx.sol.Assert("(>= top0 16384)")
	st.allocTop = "top0"
	st.top0 = "top0"
	// parameters
	for i, p := range fn.Params {
		v := st.freshVal(p.Type(), "p_"+p.Name())
		st.env[p] = v
		fx.params[p.Name()] = v
		fx.paramList = append(fx.paramList, v)
		if i == 0 && fn.Signature.Recv() != nil {
			fx.params["recv"] = v
			if _, isPtr := p.Type().Underlying().(*types.Pointer); isPtr {
				fx.sol.Assert(tNot(tEq(v.S, "0"))) // implicit precondition, checked at every call site
			}
		}
	}
	var fvCells []string
	for _, fv := range fn.FreeVars {
		v := st.freshVal(fv.Type(), "fv_"+fv.Name())
		st.env[fv] = v
		if _, isPtr := fv.Type().Underlying().(*types.Pointer); isPtr {
			fx.sol.Assert(tCmp(">", v.S, "0")) // captured variables are addresses of live cells
			for _, prev := range fvCells {
				fx.sol.Assert(tNot(tEq(prev, v.S))) // distinct captured variables live in distinct cells
			}
			fvCells = append(fvCells, v.S)
		}
	}
	// request-local ghost state that starts empty
	if con != nil {
		for _, g := range con.Fresh {
			gv := e.CS.GVars[g]
			if gv == nil {
				fx.unsupported("fresh: unknown ghost var " + g)
				continue
			}
			switch gv.Sort {
			case "(Array Int Bool)":
				st.heapSet("G|"+g, gv.Sort, "((as const (Array Int Bool)) false)")
			case "(Array Int Int)":
				st.heapSet("G|"+g, gv.Sort, "((as const (Array Int Int)) 0)")
			case "Int":
				st.heapSet("G|"+g, gv.Sort, "0")
			case "Bool":
				st.heapSet("G|"+g, gv.Sort, "false")
			}
		}
	}
	fx.entry = st.snapshot()
	fx.entry.env = map[ssa.Value]*Val{}
	for k, v := range st.env {
		fx.entry.env[k] = v
	}
	env := fx.fnEnv(st, point{fn.Blocks[0], 0})
	// axioms
	for _, ax := range e.CS.Axioms {
		if len(e.CS.axiomGhosts(ax)) == 0 || strings.Contains(ax.Src, "allocTop") {
			fx.assertAxiom(st, ax)
		}
	}
	if con != nil {
		// locks the caller holds (entry-held x.mu): held exactly once at entry, and again at exit (lock balance)
		for _, eh := range con.EntryHeld {
			sel, ok := eh.(*ESel)
			var l *Loc
			if ok {
				l = env.selLoc(sel.X, sel.Name)
			}
			if l == nil {
				fx.unsupported("entry-held: not a field location")
				continue
			}
			key := "L|" + l.className()
			if fx.entryLocks == nil {
				fx.entryLocks = map[string]string{}
			}
			arr := tSto(fx.entryLockArr(key), l.Ref, "1")
			fx.entryLocks[key] = arr
			st.heapSet(key, "(Array Int Int)", arr)
			fx.locksTouched[key] = true
		}
		for _, r := range con.Requires {
			fx.sol.Assert(env.evalBool(r.E))
		}
		if con.HasFrame {
			for i, a := range con.Assigns {
				fx.frameTgts = append(fx.frameTgts, env.targets(a, con.AssignSrc[i])...)
			}
		}
	}
	// vacuity: the precondition together with the type invariants must be satisfiable
	if !fx.sol.FeasibleT(2000) {
		res.Vacuous = true
		fx.unsupported("contradictory precondition (vacuous proof)")
		fx.finish(res, t0)
		return res
	}
	top := &callFrame{fn: fn, top: true}
	top.ret = func(st2 *State, results []*Val) { fx.checkPost(st2, results) }
	fx.execBlock(st, top, fn.Blocks[0], 0, nil)
	fx.finish(res, t0)
	return res
}

func (fx *FnCtx) finish(res *FnResult, t0 time.Time) {
	res.Paths = fx.paths
	res.Loops = len(fx.loops)
	for _, li := range fx.loops {
		if fx.con != nil && len(fx.con.LoopInv[li.ordinal]) > 0 {
			res.LoopsWithInv++
		}
	}
	for _, n := range fx.oblOrder {
		res.Obligations = append(res.Obligations, fx.obls[n])
	}
	for u := range fx.unsup {
		res.Unsupported = append(res.Unsupported, u)
	}
	sort.Strings(res.Unsupported)
	for n := range fx.notes {
		res.Notes = append(res.Notes, n)
	}
	sort.Strings(res.Notes)
	if fx.con != nil && !fx.aborted {
		for _, ac := range fx.con.AtCalls {
			if !fx.exercised[ac] {
				fx.unsup["at-call clause "+ac.Tag()+" for "+shortFn(ac.Callee)+" matches no call in the body (contract out of date or call removed)"] = true
			}
		}
		for _, ac := range fx.con.AtSends {
			if !fx.exercised[ac] {
				fx.unsup["at-send clause "+ac.Tag()+" for "+ac.Callee+" matches no call in the body (contract out of date or send removed)"] = true
			}
		}
	}
	res.Unsupported = res.Unsupported[:0]
	for u := range fx.unsup {
		res.Unsupported = append(res.Unsupported, u)
	}
	sort.Strings(res.Unsupported)
	res.Covers = fx.covers
	res.ReachableReturns = fx.reachableReturns
	if fx.reachableReturns == 0 && !fx.aborted && len(fx.unsup) == 0 && fx.paths > 0 && fx.hasReturn() {
		fx.unsup["no return path is reachable under the precondition (vacuous proof)"] = true
		res.Unsupported = append(res.Unsupported, "no return path is reachable under the precondition (vacuous proof)")
	}
	res.WallMs = float64(time.Since(t0).Microseconds()) / 1000
}

func (fx *FnCtx) assertAxiom(st *State, ax *Axiom) {
	env := &SpecEnv{fx: fx, st: st, old: st, vars: map[string]*Val{}, fn: fx.fn}
	if fx.fn.Pkg != nil {
		env.pkg = fx.fn.Pkg.Pkg
	}
	var decls []string
	for _, v := range ax.Vars {
		fx.nfresh++
		n := fmt.Sprintf("ax_%s_%d", sanitize(v), fx.nfresh)
		decls = append(decls, "("+n+" Int)")
		env.vars[v] = mkInt(n, nil)
	}
	// axioms may only mention ghost functions and constants; skip silently when they do not type here
	before := len(fx.unsup)
	body := env.evalBool(ax.E)
	if len(fx.unsup) != before {
		return
	}
	if len(decls) > 0 {
		body = "(forall (" + strings.Join(decls, " ") + ") " + body + ")"
	}
	if fx.lazyAx != nil && fx.lazyAx[ax] == 1 {
		fx.sol.Sticky(body)
	} else {
		fx.sol.Assert(body)
	}
	fx.note("axiom assumed: " + ax.Label + " " + ax.Src)
}

var identCallRe = regexp.MustCompile(`([A-Za-z_][A-Za-z0-9_]*)\(`)

// axiomGhosts: the ghost functions an axiom mentions (directly or through spec functions).
func (cs *ContractSet) axiomGhosts(ax *Axiom) []string {
	cs.axMu.Lock()
	defer cs.axMu.Unlock()
	if cs.axGhosts == nil {
		cs.axGhosts = map[*Axiom][]string{}
	}
	if g, ok := cs.axGhosts[ax]; ok {
		return g
	}
	seen := map[string]bool{}
	var out []string
	var walk func(src string, depth int)
	walk = func(src string, depth int) {
		for _, m := range identCallRe.FindAllStringSubmatch(src, -1) {
			n := m[1]
			if seen[n] {
				continue
			}
			seen[n] = true
			if _, ok := cs.GFuncs[n]; ok {
				out = append(out, n)
			} else if sf, ok := cs.Specs[n]; ok && depth < 6 {
				walk(sf.Src, depth+1)
			}
		}
	}
	walk(ax.Src, 0)
	cs.axGhosts[ax] = out
	return out
}

// ghostUsed: a ghost function is being mentioned; bring in the axioms about it (once per function under verification).
func (fx *FnCtx) ghostUsed(st *State, name string) {
	if fx.lazyAx == nil {
		fx.lazyAx = map[*Axiom]int{}
	}
	for _, ax := range fx.eng.CS.Axioms {
		if fx.lazyAx[ax] != 0 || strings.Contains(ax.Src, "allocTop") {
			continue
		}
		hit := false
		for _, g := range fx.eng.CS.axiomGhosts(ax) {
			if g == name {
				hit = true
			}
		}
		if !hit {
			continue
		}
		fx.lazyAx[ax] = 1
		fx.assertAxiom(st, ax)
	}
}

// fnEnv: spec environment in the scope of the function under verification.
func (fx *FnCtx) fnEnv(st *State, at point) *SpecEnv {
	env := &SpecEnv{fx: fx, st: st, old: fx.entry, vars: map[string]*Val{}, fn: fx.fn, useLocals: true, at: at}
	if fx.fn.Pkg != nil {
		env.pkg = fx.fn.Pkg.Pkg
	} else if fx.fn.Parent() != nil {
		p := fx.fn.Parent()
		for p.Parent() != nil {
			p = p.Parent()
		}
		if p.Pkg != nil {
			env.pkg = p.Pkg.Pkg
		}
	}
	for n, v := range fx.params {
		env.vars[n] = v
	}
	// positional aliases param0, param1, ... (receiver first) for parameters whose name collides with `res`
	off := 0
	if fx.fn.Signature.Recv() != nil {
		off = 1
	}
	for i, p := range fx.fn.Params {
		if v, ok := fx.params[p.Name()]; ok {
			env.vars[fmt.Sprintf("param%d", i)] = v
			// the same aliases a call site uses (recv, arg0, ...), so that a clause can name a parameter either way
			if i < off {
				if _, has := env.vars["recv"]; !has {
					env.vars["recv"] = v
				}
			} else if _, has := env.vars[fmt.Sprintf("arg%d", i-off)]; !has {
				env.vars[fmt.Sprintf("arg%d", i-off)] = v
			}
		}
	}
	for _, fv := range fx.fn.FreeVars {
		env.freeVars = append(env.freeVars, freeVarBinding{fv.Name(), fx.entry.env[fv], fv.Type()})
	}
	return env
}

func (fx *FnCtx) checkPost(st *State, results []*Val) {
	fx.paths++
	if fx.paths > fx.maxPaths {
		fx.unsupported(fmt.Sprintf("more than %d paths", fx.maxPaths))
		fx.aborted = true
		return
	}
	if fx.reachableReturns == 0 && (os.Getenv("NOFEAS") != "" || fx.sol.Feasible()) {
		fx.reachableReturns++
	}
	if fx.con != nil {
		env := fx.fnEnv(st, point{nil, 0})
		env.useLocals = false
		sig := fx.fn.Signature
		var res *Val
		switch len(results) {
		case 0:
		case 1:
			res = results[0]
		default:
			res = &Val{K: KTuple, T: sig.Results(), Fs: results}
		}
		bindResults(env, sig, res)
		// at-return clauses: like postconditions, but with the locals in scope at this return
		for _, c := range fx.con.AtReturns {
			renv := fx.fnEnv(st, st.curPoint)
			bindResults(renv, sig, res)
			fx.oblige(st, fx.oname("at-return", strings.Trim(c.Tag(), "[]")), "at-return", c, renv.evalBool(c.E))
		}
		// ghost code: updates of ghost variables performed when the function returns
		for _, gs := range fx.con.GhostSets {
			gv := fx.eng.CS.GVars[gs.Var]
			if gv == nil {
				fx.unsupported("ghost-set: unknown ghost var " + gs.Var)
				continue
			}
			cond := "true"
			if gs.Cond != nil {
				cond = env.evalBool(gs.Cond)
			}
			cur := st.heapGet("G|"+gv.Name, gv.Sort)
			var nv string
			val := env.eval(gs.Val)
			if gs.Idx != nil {
				nv = tSto(cur, env.evalInt(gs.Idx), val.S)
			} else {
				nv = val.S
			}
			st.heapSet("G|"+gv.Name, gv.Sort, tIte(cond, nv, cur))
		}
		for _, e := range fx.con.Ensures {
			g := env.evalBool(e.E)
			fx.oblige(st, fx.oname("post", strings.Trim(e.Tag(), "[]")), "post", e, g)
		}
		for _, c := range fx.con.Covers {
			name := strings.Trim(c.Tag(), "[]")
			if !fx.covers[name] {
				if r := fx.sol.CheckSat(env.evalBool(c.E)); r.Status == "sat" {
					fx.covers[name] = true
				} else if _, seen := fx.covers[name]; !seen {
					fx.covers[name] = false
				}
			}
		}
		// iterated closures must re-establish their precondition
		if fx.con.Iterated {
			for _, r := range fx.con.Requires {
				e2 := fx.fnEnv(st, point{nil, 0})
				e2.useLocals = false
				bindResults(e2, sig, res)
				fx.oblige(st, fx.oname("post", "re-establishes "+strings.Trim(r.Tag(), "[]")), "post", r, e2.evalBool(r.E))
			}
		}
	}
	// lock balance: every lock acquired in this function is released on this path
	var keys []string
	for k := range fx.locksTouched {
		keys = append(keys, k)
	}
	sort.Strings(keys)
	for _, k := range keys {
		cur, ok := st.heap[k]
		if !ok {
			continue
		}
		init := fx.entryLockArr(k)
		if cur == init {
			continue
		}
		fx.oblige(st, fx.oname("lock", "balance "+k[2:]+ifs(k[0] == 'R', " (read)", "")), "lock", &Clause{Props: []string{"C18", "C16"}, Label: "lock-balance"}, tEq(cur, init))
	}
}

// ---------- loops ----------

func (fx *FnCtx) bindPhis(st *State, b, pred *ssa.BasicBlock) {
	for _, ins := range b.Instrs {
		phi, ok := ins.(*ssa.Phi)
		if !ok {
			break
		}
		for i, p := range b.Preds {
			if p == pred {
				st.env[phi] = st.val(phi.Edges[i])
			}
		}
	}
}

func (fx *FnCtx) loopEnv(st *State, b *ssa.BasicBlock) *SpecEnv {
	env := fx.fnEnv(st, point{b, 0})
	for _, ins := range b.Instrs {
		phi, ok := ins.(*ssa.Phi)
		if !ok {
			break
		}
		if phi.Comment != "" {
			env.vars[phi.Comment] = st.env[phi]
			if i := strings.LastIndex(phi.Comment, "."); i >= 0 {
				if _, has := env.vars[phi.Comment[i+1:]]; !has {
					env.vars[phi.Comment[i+1:]] = st.env[phi]
				}
			}
		}
	}
	return env
}

func (fx *FnCtx) loopEntry(st *State, fr *callFrame, li *loopInfo, b, pred *ssa.BasicBlock) {
	fx.bindPhis(st, b, pred)
	var invs []*Clause
	var dec *Clause
	if fx.con != nil {
		invs = fx.con.LoopInv[li.ordinal]
		dec = fx.con.LoopDec[li.ordinal]
	}
	if len(invs) == 0 {
		fx.defaultInvLoops++
		fx.note(fmt.Sprintf("loop %d has no invariant: 'true' used (loop-modified state is unconstrained after the head)", li.ordinal))
	}
	env := fx.loopEnv(st, b)
	for _, inv := range invs {
		fx.oblige(st, fx.oname("inv-entry", fmt.Sprintf("loop %d %s", li.ordinal, strings.Trim(inv.Tag(), "[]"))), "inv-entry", inv, env.evalBool(inv.E))
	}
	// havoc loop-modified state
	for _, ins := range b.Instrs {
		phi, ok := ins.(*ssa.Phi)
		if !ok {
			break
		}
		st.env[phi] = st.freshVal(phi.Type(), "loop_"+phi.Comment)
		delete(st.locs, phi)
	}
	if os.Getenv("TVDBG3") != "" {
		fmt.Fprintf(os.Stderr, "LOOP %d all=%v keys=%v\n", li.ordinal, li.all, li.keys)
	}
	if li.all {
		st.havocAllKeepLocks()
	} else {
		var ps []string
		for p := range li.keys {
			if p != "" {
				ps = append(ps, p)
			}
		}
		sort.Strings(ps)
		st.havocPrefixes(ps)
		nt := fx.fresh("top", "Int")
		fx.sol.Assert(tCmp(">=", nt, st.allocTop))
		st.allocTop = nt
	}
	env = fx.loopEnv(st, b)
	for _, inv := range invs {
		fx.sol.Assert(env.evalBool(inv.E))
	}
	if dec != nil {
		st.variants[b] = env.evalInt(dec.E)
	}
}

func (fx *FnCtx) loopBackEdge(st *State, fr *callFrame, li *loopInfo, b, pred *ssa.BasicBlock) {
	fx.bindPhis(st, b, pred)
	var invs []*Clause
	var dec *Clause
	if fx.con != nil {
		invs = fx.con.LoopInv[li.ordinal]
		dec = fx.con.LoopDec[li.ordinal]
	}
	env := fx.loopEnv(st, b)
	for _, inv := range invs {
		fx.oblige(st, fx.oname("inv-step", fmt.Sprintf("loop %d %s", li.ordinal, strings.Trim(inv.Tag(), "[]"))), "inv-step", inv, env.evalBool(inv.E))
	}
	if dec != nil {
		if old, ok := st.variants[b]; ok {
			nv := env.evalInt(dec.E)
			fx.oblige(st, fx.oname("decreases", fmt.Sprintf("loop %d", li.ordinal)), "decreases", dec, tAnd(tCmp(">=", old, "0"), tCmp("<", nv, old)))
		}
	}
	fx.paths++
}

func (st *State) havocPrefixes(ps []string) {
	if len(ps) == 0 {
		return
	}
	st.fx.nfresh++
	ep := st.fx.nfresh
	for _, p := range ps {
		st.kpre = append(st.kpre, prefixEpoch{p, ep})
	}
	for k := range st.heap {
		for _, p := range ps {
			if strings.HasPrefix(k, p) {
				delete(st.heap, k)
				break
			}
		}
	}
}

// ---------- local variable resolution (for invariants and at-call clauses) ----------

func (fx *FnCtx) resolveLocal(st *State, name string, at point) *Val {
	if at.b == nil {
		return nil
	}
	b := at.b
	idx := at.idx
	for b != nil {
		if idx > len(b.Instrs) {
			idx = len(b.Instrs)
		}
		for i := idx - 1; i >= 0; i-- {
			switch x := b.Instrs[i].(type) {
			case *ssa.DebugRef:
				id, ok := x.Expr.(*ast.Ident)
				if !ok || id.Name != name {
					continue
				}
				if x.IsAddr {
					if _, ok := st.env[x.X]; !ok {
						continue
					}
					l := st.ptrLoc(x.X)
					return st.loadLoc(l)
				}
				if c, ok := x.X.(*ssa.Const); ok {
					return st.constVal(c)
				}
				if v, ok := st.env[x.X]; ok {
					return v
				}
			case *ssa.Phi:
				if x.Comment == name {
					if v, ok := st.env[x]; ok {
						return v
					}
				}
			case *ssa.Alloc:
				if x.Comment == name {
					if _, ok := st.env[x]; ok {
						return st.loadLoc(st.ptrLoc(x))
					}
				}
			}
		}
		b = b.Idom()
		if b != nil {
			idx = len(b.Instrs)
		}
	}
	return nil
}

// localType: the Go type of the local variable `name` of the function under verification (from the debug references).
func (fx *FnCtx) localType(name string) types.Type {
	for _, b := range fx.fn.Blocks {
		for _, ins := range b.Instrs {
			if x, ok := ins.(*ssa.DebugRef); ok {
				if id, ok := x.Expr.(*ast.Ident); ok && id.Name == name {
					t := x.X.Type()
					if x.IsAddr {
						if pt, ok := t.Underlying().(*types.Pointer); ok {
							return pt.Elem()
						}
					}
					return t
				}
			}
		}
	}
	return nil
}

func (fx *FnCtx) currentIter(st *State) *iterInfo { return st.lastIter }

// ---------- model extraction ----------

func (fx *FnCtx) extractInputs(get func([]string) map[string]string) *ModelInputs {
	mi := &ModelInputs{Scalars: map[string]string{}, Bytes: map[string][]int{}}
	var terms []string
	names := map[string]string{}
	var pnames []string
	for n := range fx.params {
		pnames = append(pnames, n)
	}
	sort.Strings(pnames)
	for _, n := range pnames {
		if n == "recv" {
			continue
		}
		v := fx.params[n]
		var ls []leaf
		if v.T == nil {
			continue
		}
		leavesOf(v.T, "", &ls)
		var xs []string
		v.flat(&xs)
		for i, lf := range ls {
			if lf.arr || i >= len(xs) {
				continue
			}
			terms = append(terms, xs[i])
			names[xs[i]] = joinPath(n, lf.path)
		}
	}
	if len(terms) == 0 {
		return mi
	}
	m := get(terms)
	for t, v := range m {
		mi.Scalars[names[t]] = v
	}
	// byte slices among the parameters (entry contents)
	for _, n := range pnames {
		v := fx.params[n]
		if v.K != KSlice || v.T == nil {
			continue
		}
		sl, ok := v.T.Underlying().(*types.Slice)
		if !ok || typeKey(sl.Elem()) != "uint8" && typeKey(sl.Elem()) != "byte" {
			continue
		}
		ln, ok := isNum(m[v.L])
		if !ok || ln.Sign() < 0 || ln.Int64() > 70000 {
			continue
		}
		key := "M|" + typeKey(sl.Elem()) + "|"
		arr := fmt.Sprintf("H0_%s", sanitize(key))
		if !fx.sol.IsDeclared(arr) {
			mi.Bytes[n] = make([]int, ln.Int64())
			continue
		}
		var bt []string
		lim := ln.Int64()
		if lim > 64 {
			lim = 64
		}
		for i := int64(0); i < lim; i++ {
			bt = append(bt, tSel(tSel(arr, v.B), tAdd(v.O, numI(i))))
		}
		out := make([]int, ln.Int64())
		if len(bt) > 0 {
			bm := get(bt)
			for i, t := range bt {
				if x, ok := isNum(bm[t]); ok {
					out[i] = int(x.Int64()) & 255
				}
			}
		}
		mi.Bytes[n] = out
	}
	return mi
}

func (fx *FnCtx) hasReturn() bool {
	for _, b := range fx.fn.Blocks {
		for _, ins := range b.Instrs {
			if _, ok := ins.(*ssa.Return); ok {
				return true
			}
		}
	}
	return false
}
