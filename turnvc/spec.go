package main

// Evaluation of contract expressions into SMT terms over a symbolic state.

import (
	"fmt"
	"go/constant"
	"go/types"
	"sort"
	"strings"

	"golang.org/x/tools/go/ssa"
)

type point struct {
	b   *ssa.BasicBlock
	idx int
}

type freeVarBinding struct {
	name string
	v    *Val
	t    types.Type
}

type SpecEnv struct {
	fx        *FnCtx
	st        *State
	old       *State
	vars      map[string]*Val
	fn        *ssa.Function
	pkg       *types.Package
	freeVars  []freeVarBinding
	useLocals bool
	at        point
	depth     int
	err       []string
}

func (env *SpecEnv) fail(msg string) *Val {
	env.fx.unsupported("spec: " + msg)
	return mkInt(env.fx.fresh("specerr", "Int"), nil)
}

func (env *SpecEnv) child() *SpecEnv {
	c := *env
	c.vars = map[string]*Val{}
	for k, v := range env.vars {
		c.vars[k] = v
	}
	return &c
}

func (env *SpecEnv) evalBool(e Expr) string {
	v := env.eval(e)
	if v.K != KBool {
		if v.K == KInt {
			return tNot(tEq(v.S, "0"))
		}
		env.fail(fmt.Sprintf("boolean expected, got %v", v))
		return "true"
	}
	return v.S
}

func (env *SpecEnv) evalInt(e Expr) string {
	v := env.eval(e)
	if v.K == KBool {
		return tIte(v.S, "1", "0")
	}
	if v.K != KInt {
		env.fail(fmt.Sprintf("scalar expected, got %v", v))
		return "0"
	}
	return v.S
}

var specConvTypes = map[string]types.Type{
	"int": types.Typ[types.Int], "int8": types.Typ[types.Int8], "int16": types.Typ[types.Int16], "int32": types.Typ[types.Int32], "int64": types.Typ[types.Int64],
	"uint": types.Typ[types.Uint], "uint8": types.Typ[types.Uint8], "uint16": types.Typ[types.Uint16], "uint32": types.Typ[types.Uint32], "uint64": types.Typ[types.Uint64],
	"byte": types.Typ[types.Uint8],
}

func (env *SpecEnv) eval(e Expr) *Val {
	fx := env.fx
	switch x := e.(type) {
	case *EInt:
		return mkInt(num(x.V), nil)
	case *EBool:
		return mkBool(fmt.Sprint(x.V))
	case *EStr:
		id := strID(x.S)
		fx.sol.Declare("strlen", "(declare-fun strlen (Int) Int)")
		fx.sol.Assert(tEq("(strlen "+fmt.Sprint(id)+")", fmt.Sprint(len(x.S))))
		return mkInt(fmt.Sprint(id), types.Typ[types.String])
	case *EIdent:
		return env.ident(x.Name)
	case *EUnary:
		if x.Op == "!" {
			return mkBool(tNot(env.evalBool(x.X)))
		}
		if x.Op == "*" {
			p := env.eval(x.X)
			if p.K != KInt || p.T == nil {
				return env.fail("dereference of non-pointer")
			}
			pt, ok := p.T.Underlying().(*types.Pointer)
			if !ok {
				return env.fail("dereference of non-pointer " + p.T.String())
			}
			return env.st.loadLoc(env.st.objLoc(p.S, pt.Elem()))
		}
		return mkInt(tSub("0", env.evalInt(x.X)), nil)
	case *EBinary:
		switch x.Op {
		case "&&":
			return mkBool(tAnd(env.evalBool(x.X), env.evalBool(x.Y)))
		case "||":
			return mkBool(tOr(env.evalBool(x.X), env.evalBool(x.Y)))
		case "==>":
			return mkBool(tImp(env.evalBool(x.X), env.evalBool(x.Y)))
		case "==", "!=":
			a, b := env.eval(x.X), env.eval(x.Y)
			var eq string
			if a.K != b.K {
				// nil comparison for slices: nil slice has base 0
				if a.K == KSlice && b.K == KInt {
					eq = tEq(a.B, b.S)
				} else if b.K == KSlice && a.K == KInt {
					eq = tEq(b.B, a.S)
				} else if a.K == KBool && b.K == KInt || a.K == KInt && b.K == KBool {
					env.fail("comparison of bool and int")
					eq = "true"
				} else {
					env.fail(fmt.Sprintf("comparison of different shapes: %v vs %v", a, b))
					eq = "true"
				}
			} else {
				if (a.K == KStruct || a.K == KTuple) && len(a.Fs) != len(b.Fs) {
					env.fail("comparison of structs of different types")
					return mkBool("true")
				}
				eq = eqVal(a, b)
			}
			if x.Op == "!=" {
				eq = tNot(eq)
			}
			return mkBool(eq)
		case "<", "<=", ">", ">=":
			return mkBool(tCmp(x.Op, env.evalInt(x.X), env.evalInt(x.Y)))
		case "+":
			return mkInt(tAdd(env.evalInt(x.X), env.evalInt(x.Y)), nil)
		case "-":
			return mkInt(tSub(env.evalInt(x.X), env.evalInt(x.Y)), nil)
		case "*":
			return mkInt(tMul(env.evalInt(x.X), env.evalInt(x.Y)), nil)
		case "/", "%":
			a, b := env.evalInt(x.X), env.evalInt(x.Y)
			q := tIte(tCmp(">=", a, "0"), tDivE(a, b), tSub("0", tDivE(tSub("0", a), b)))
			if x.Op == "/" {
				return mkInt(q, nil)
			}
			return mkInt(tSub(a, tMul(b, q)), nil)
		case "<<":
			if n, ok := isNum(env.evalInt(x.Y)); ok {
				return mkInt(tMul(env.evalInt(x.X), num(new(bigInt).Lsh(bigOne, uint(n.Int64())))), nil)
			}
		case ">>":
			if n, ok := isNum(env.evalInt(x.Y)); ok {
				return mkInt(tDivE(env.evalInt(x.X), num(new(bigInt).Lsh(bigOne, uint(n.Int64())))), nil)
			}
		}
		return env.fail("operator " + x.Op)
	case *ECond:
		c := env.evalBool(x.C)
		a, b := env.eval(x.A), env.eval(x.B)
		if a.K != b.K {
			return env.fail("conditional branches of different shapes")
		}
		return iteVal(c, a, b)
	case *EQuant:
		c := env.child()
		var decls []string
		var qnames []string
		for _, v := range x.Vars {
			fx.nfresh++
			n := fmt.Sprintf("q_%s_%d", sanitize(v), fx.nfresh)
			decls = append(decls, "("+n+" Int)")
			qnames = append(qnames, n)
			c.vars[v] = mkInt(n, nil)
		}
		var facts []string
		saved := env.st.wfSink
		env.st.wfSink = &facts
		var savedOld *[]string
		if env.old != nil && env.old != env.st {
			savedOld = env.old.wfSink
			env.old.wfSink = &facts
		}
		body := c.evalBool(x.Body)
		env.st.wfSink = saved
		if env.old != nil && env.old != env.st {
			env.old.wfSink = savedOld
		}
		q := "forall"
		if !x.Forall {
			q = "exists"
			body = tAnd(append(facts, body)...)
		} else if len(facts) > 0 {
			// the type invariants of the cells mentioned hold for every index: state them once as an axiom (so that a
			// quantified hypothesis can be used) and keep them as a guard (harmless for a quantified goal)
			if saved == nil {
				fb, fpat := normaliseForall(tAnd(facts...), qnames)
				if fpat != "" {
					fx.sol.AssertOnce("(forall (" + strings.Join(decls, " ") + ") (! " + fb + " :pattern (" + fpat + ")))")
				} else {
					fx.sol.AssertOnce("(forall (" + strings.Join(decls, " ") + ") " + tAnd(facts...) + ")")
				}
				body = tImp(tAnd(facts...), body)
			} else {
				// nested quantifier: hand the cell invariants to the enclosing quantifier (universally closed over the
				// inner variables) instead of making them premises nobody could discharge
				*saved = append(*saved, "(forall ("+strings.Join(decls, " ")+") "+tAnd(facts...)+")")
			}
		}
		if x.Forall {
			nb, pat := normaliseForall(body, qnames)
			if pat != "" {
				return mkBool("(forall (" + strings.Join(decls, " ") + ") (! " + nb + " :pattern (" + pat + ")))")
			}
		}
		return mkBool("(" + q + " (" + strings.Join(decls, " ") + ") " + body + ")")
	case *EIndex:
		base := env.eval(x.X)
		return env.index(base, x.I)
	case *ESlice:
		s := env.eval(x.X)
		if s.K != KSlice {
			return env.fail("slice expression on non-slice")
		}
		lo, hi := "0", s.L
		if x.Lo != nil {
			lo = env.evalInt(x.Lo)
		}
		if x.Hi != nil {
			hi = env.evalInt(x.Hi)
		}
		return &Val{K: KSlice, T: s.T, B: s.B, O: tAdd(s.O, lo), L: tSub(hi, lo), C: tSub(s.C, lo)}
	case *ESel:
		if id, ok := x.X.(*EIdent); ok {
			if _, bound := env.lookupVar(id.Name); !bound {
				if v := env.qualified(id.Name, x.Name); v != nil {
					return v
				}
			}
		}
		return env.sel(env.eval(x.X), x.Name)
	case *ETypeAssert:
		v := env.eval(x.X)
		t := fx.eng.lookupType(x.Type, env.pkg)
		if t == nil {
			return env.fail("unknown type " + x.Type)
		}
		if isRefLike(t) {
			return mkInt(v.S, t)
		}
		return env.st.loadLoc(&Loc{Mem: true, Ref: v.S, Idx: "0", Root: "box:" + typeKey(t), T: t})
	case *ECall:
		return env.call(x)
	case *EType:
		return env.fail("type used as value")
	}
	return env.fail(fmt.Sprintf("expression %T", e))
}

func (env *SpecEnv) lookupVar(name string) (*Val, bool) {
	if v, ok := env.vars[name]; ok {
		return v, true
	}
	for _, fv := range env.freeVars {
		if fv.name == name {
			return fv.v, true
		}
	}
	return nil, false
}

func (env *SpecEnv) ident(name string) *Val {
	fx := env.fx
	if v, ok := env.vars[name]; ok {
		return v
	}
	for _, fv := range env.freeVars {
		if fv.name == name {
			// captured variables are pointers to cells: dereference for convenience
			if pt, ok := fv.t.Underlying().(*types.Pointer); ok && fv.v.K == KInt {
				l := env.st.objLoc(fv.v.S, pt.Elem())
				if kindOf(pt.Elem()) != KStruct {
					return env.st.loadLoc(l)
				}
			}
			return fv.v
		}
	}
	if env.useLocals {
		if v := fx.resolveLocal(env.st, name, env.at); v != nil {
			return v
		}
	}
	if g, ok := fx.eng.CS.GVars[name]; ok {
		return env.ghostVar(g)
	}
	if name == "allocTop" {
		return mkInt(env.st.allocTop, nil)
	}
	if env.pkg != nil {
		if v := env.pkgObject(env.pkg, name); v != nil {
			return v
		}
	}
	if env.useLocals && env.at.b != nil {
		// a local that is not in scope at this program point: unconstrained (an obligation must then hold for every value)
		fx.note("contract mentions local '" + name + "' at a point where it is not in scope: treated as arbitrary")
		if t := fx.localType(name); t != nil {
			return env.st.freshVal(t, "unscoped_"+name)
		}
		return mkInt(fx.fresh("unscoped_"+name, "Int"), nil)
	}
	return env.fail("unknown identifier " + name)
}

func (env *SpecEnv) ghostVar(g *GhostVar) *Val {
	t := env.st.heapGet("G|"+g.Name, g.Sort)
	switch g.Sort {
	case "Bool":
		return mkBool(t)
	case "Int":
		if g.TypeName != "" {
			if tt := env.fx.eng.lookupType(g.TypeName, env.pkg); tt != nil {
				return mkInt(t, tt)
			}
		}
		return mkInt(t, nil)
	}
	return &Val{K: KArr, S: t, Org: "ghost " + g.Sort}
}

func (env *SpecEnv) pkgObject(pkg *types.Package, name string) *Val {
	o := pkg.Scope().Lookup(name)
	if o == nil {
		return nil
	}
	switch ob := o.(type) {
	case *types.Const:
		switch ob.Val().Kind() {
		case constant.Int:
			n, ok := isNum(ob.Val().ExactString())
			if !ok {
				s := ob.Val().ExactString()
				if strings.HasPrefix(s, "-") {
					if n2, ok2 := isNum(s[1:]); ok2 {
						return mkInt(num(n2.Neg(n2)), ob.Type())
					}
				}
				return nil
			}
			return mkInt(num(n), ob.Type())
		case constant.Bool:
			return mkBool(fmt.Sprint(constant.BoolVal(ob.Val())))
		case constant.String:
			return env.eval(&EStr{constant.StringVal(ob.Val())})
		}
	case *types.Var:
		full := pkg.Path() + "." + name
		if id, ok := env.fx.eng.Sentinels[full]; ok {
			return mkInt(fmt.Sprint(id), ob.Type())
		}
		gid := env.fx.eng.globalID(full)
		return env.st.loadLoc(env.st.objLoc(fmt.Sprint(gid), ob.Type()))
	}
	return nil
}

func (env *SpecEnv) qualified(pkgName, name string) *Val {
	// imported package of env.pkg by name, else any loaded package with that name
	var cands []*types.Package
	if env.pkg != nil {
		for _, im := range env.pkg.Imports() {
			if im.Name() == pkgName {
				cands = append(cands, im)
			}
		}
	}
	if len(cands) == 0 {
		for _, sp := range env.fx.eng.SSAPkgs {
			if sp.Pkg.Name() == pkgName {
				cands = append(cands, sp.Pkg)
			}
		}
	}
	for _, p := range cands {
		if v := env.pkgObject(p, name); v != nil {
			return v
		}
	}
	return nil
}

func lookupField(t types.Type, pkg *types.Package, name string) ([]int, types.Type) {
	obj, idx, _ := types.LookupFieldOrMethod(t, true, pkg, name)
	if v, ok := obj.(*types.Var); ok && v.IsField() {
		return idx, v.Type()
	}
	// unexported field of another package: search manually
	var find func(t types.Type, depth int) ([]int, types.Type)
	find = func(t types.Type, depth int) ([]int, types.Type) {
		if depth > 3 {
			return nil, nil
		}
		if p, ok := t.Underlying().(*types.Pointer); ok {
			t = p.Elem()
		}
		st, ok := t.Underlying().(*types.Struct)
		if !ok {
			return nil, nil
		}
		for i := 0; i < st.NumFields(); i++ {
			if st.Field(i).Name() == name {
				return []int{i}, st.Field(i).Type()
			}
		}
		for i := 0; i < st.NumFields(); i++ {
			if st.Field(i).Embedded() {
				if p, ft := find(st.Field(i).Type(), depth+1); p != nil {
					return append([]int{i}, p...), ft
				}
			}
		}
		return nil, nil
	}
	return find(t, 0)
}

func (env *SpecEnv) sel(v *Val, name string) *Val {
	if v.T == nil {
		return env.fail("field ." + name + " of untyped value")
	}
	t := v.T
	idx, _ := lookupField(t, env.pkg, name)
	if idx == nil {
		return env.fail(fmt.Sprintf("no field %s in %s", name, t))
	}
	cur := v
	for _, i := range idx {
		switch {
		case cur.K == KStruct:
			cur = cur.Fs[i]
		case cur.K == KInt:
			pt, ok := cur.T.Underlying().(*types.Pointer)
			if !ok {
				return env.fail("field of non-pointer " + cur.T.String())
			}
			stt, ok := pt.Elem().Underlying().(*types.Struct)
			if !ok || isOpaqueStruct(pt.Elem()) {
				return env.fail("field of opaque " + pt.Elem().String())
			}
			l := subLoc(env.st.objLoc(cur.S, pt.Elem()), i, stt.Field(i).Type())
			if kindOf(l.T) == KStruct {
				// nested struct by value: keep as a location-backed struct value
				cur = env.st.loadLoc(l)
			} else {
				cur = env.st.loadLoc(l)
				if cur.K == KInt {
					cc := *cur
					cc.Org = "field " + l.className()
					cur = &cc
				}
			}
		default:
			return env.fail("field selection on " + cur.String())
		}
	}
	return cur
}

// selLoc returns the location designated by X.name when X is a pointer (for assigns clauses).
func (env *SpecEnv) selLoc(x Expr, name string) *Loc {
	v := env.eval(x)
	if v.K != KInt || v.T == nil {
		return nil
	}
	pt, ok := v.T.Underlying().(*types.Pointer)
	if !ok {
		return nil
	}
	idx, _ := lookupField(v.T, env.pkg, name)
	if idx == nil {
		return nil
	}
	l := env.st.objLoc(v.S, pt.Elem())
	cur := pt.Elem()
	for _, i := range idx {
		stt, ok := cur.Underlying().(*types.Struct)
		if !ok {
			return nil
		}
		l = subLoc(l, i, stt.Field(i).Type())
		cur = stt.Field(i).Type()
	}
	return l
}

func (env *SpecEnv) index(base *Val, ie Expr) *Val {
	i := env.evalInt(ie)
	st := env.st
	switch {
	case base.K == KSlice:
		et := base.T.Underlying().(*types.Slice).Elem()
		v := st.loadLoc(&Loc{Mem: true, Ref: base.B, Idx: tAdd(base.O, i), Root: typeKey(et), T: et, RootT: et})
		return v
	case base.K == KArr && strings.HasPrefix(base.Org, "ghost "):
		sort := strings.TrimPrefix(base.Org, "ghost ")
		es := elemSortOf(sort)
		switch es {
		case "Bool":
			return mkBool(tSel(base.S, i))
		case "Int":
			return mkInt(tSel(base.S, i), nil)
		}
		return &Val{K: KArr, S: tSel(base.S, i), Org: "ghost " + es}
	case base.K == KArr:
		var et types.Type
		if a, ok := base.T.Underlying().(*types.Array); ok {
			et = a.Elem()
		}
		r := &Val{K: KInt, T: et, S: tSel(base.S, i)}
		if et != nil && kindOf(et) == KBool {
			r.K = KBool
		}
		st.assumeWF(r, false)
		return r
	case base.K == KInt && base.T != nil:
		if mt, ok := base.T.Underlying().(*types.Map); ok {
			kv := env.eval(ie)
			if kv.T == nil {
				kv = mkInt(kv.S, mt.Key())
			}
			k := env.fx.mapKeyTerm(st, kv)
			has := env.fx.mapHas(st, mt, base.S, k)
			v := st.loadLoc(env.fx.mapValLoc(mt, base.S, k))
			return iteVal(has, v, zeroVal(mt.Elem()))
		}
		if isStringT(base.T) {
			env.fx.sol.Declare("strbyte", "(declare-fun strbyte (Int Int) Int)")
			return mkInt("(strbyte "+base.S+" "+i+")", types.Typ[types.Uint8])
		}
	}
	return env.fail("indexing of " + base.String())
}

// flatArgs flattens values into UF arguments; slices are passed as (contents, offset, length).
func (env *SpecEnv) flatArgs(args []*Val) (terms, sorts []string, shape string) {
	for _, a := range args {
		switch a.K {
		case KInt:
			terms = append(terms, a.S)
			sorts = append(sorts, "Int")
			shape += "i"
		case KBool:
			terms = append(terms, a.S)
			sorts = append(sorts, "Bool")
			shape += "b"
		case KSlice:
			et := a.T.Underlying().(*types.Slice).Elem()
			m := env.st.heapGet("M|"+typeKey(et)+"|", "(Array Int (Array Int Int))")
			terms = append(terms, tSel(m, a.B), a.O, a.L)
			sorts = append(sorts, "(Array Int Int)", "Int", "Int")
			shape += "s"
		case KArr:
			terms = append(terms, a.S)
			sorts = append(sorts, "(Array Int Int)")
			shape += "a"
		default:
			var xs []string
			a.flat(&xs)
			for _, x := range xs {
				terms = append(terms, x)
				sorts = append(sorts, "Int")
			}
			shape += fmt.Sprintf("t%d", len(xs))
		}
	}
	return
}

func (env *SpecEnv) call(x *ECall) *Val {
	fx := env.fx
	st := env.st
	arg := func(i int) *Val { return env.eval(x.Args[i]) }
	switch x.Fun {
	case "old":
		if env.old == nil {
			return env.fail("old() without a pre-state")
		}
		c := *env
		c.st = env.old
		return c.eval(x.Args[0])
	case "len":
		a := arg(0)
		switch {
		case a.K == KSlice:
			return mkInt(a.L, types.Typ[types.Int])
		case a.K == KArr:
			return mkInt(fmt.Sprint(arrLen(a.T)), nil)
		case a.T != nil && isStringT(a.T):
			fx.sol.Declare("strlen", "(declare-fun strlen (Int) Int)")
			return mkInt("(strlen "+a.S+")", nil)
		case a.T != nil:
			if mt, ok := a.T.Underlying().(*types.Map); ok {
				n := tSel(st.heapGet("N|"+typeKey(mt), "(Array Int Int)"), a.S)
				return mkInt(tIte(tEq(a.S, "0"), "0", n), nil)
			}
		}
		return env.fail("len of " + a.String())
	case "cap":
		a := arg(0)
		if a.K == KSlice {
			return mkInt(a.C, nil)
		}
		return env.fail("cap of non-slice")
	case "base":
		a := arg(0)
		if a.K == KSlice {
			return mkInt(a.B, nil)
		}
		return env.fail("base of non-slice")
	case "off":
		a := arg(0)
		if a.K == KSlice {
			return mkInt(a.O, nil)
		}
		return env.fail("off of non-slice")
	case "rawbyte":
		// rawbyte(s, j): element j (absolute index in the backing array, ignoring the slice's offset) of s's backing array
		a := arg(0)
		if a.K != KSlice {
			return env.fail("rawbyte of non-slice")
		}
		et := a.T.Underlying().(*types.Slice).Elem()
		return st.loadLoc(&Loc{Mem: true, Ref: a.B, Idx: env.evalInt(x.Args[1]), Root: typeKey(et), T: et, RootT: et})
	case "bytesAt":
		// bytesAt(base, off, len): the byte slice with that header
		return &Val{K: KSlice, T: types.NewSlice(types.Typ[types.Uint8]), B: env.evalInt(x.Args[0]), O: env.evalInt(x.Args[1]), L: env.evalInt(x.Args[2]), C: env.evalInt(x.Args[2])}
	case "extendLeft":
		// extendLeft(s, n): the slice that starts n elements before s in the same backing array (undoes s = s[n:])
		a := arg(0)
		if a.K != KSlice {
			return env.fail("extendLeft of non-slice")
		}
		n := env.evalInt(x.Args[1])
		return &Val{K: KSlice, T: a.T, B: a.B, O: tSub(a.O, n), L: tAdd(a.L, n), C: tAdd(a.C, n)}
	case "sameSlice":
		a, b := arg(0), arg(1)
		if a.K != KSlice || b.K != KSlice {
			return env.fail("sameSlice of non-slices")
		}
		return mkBool(tAnd(tEq(a.B, b.B), tEq(a.O, b.O), tEq(a.L, b.L)))
	case "typeis":
		v := arg(0)
		tn := x.Args[1].(*EType).Name
		t := fx.eng.lookupType(tn, env.pkg)
		if t == nil {
			return env.fail("unknown type " + tn)
		}
		return mkBool(tAnd(tNot(tEq(v.S, "0")), tEq(fx.dyntype(v.S), fmt.Sprint(typeTag(t)))))
	case "dyntype":
		return mkInt(fx.dyntype(arg(0).S), nil)
	case "min", "max":
		a, b := env.evalInt(x.Args[0]), env.evalInt(x.Args[1])
		if x.Fun == "min" {
			return mkInt(tIte(tCmp("<", a, b), a, b), nil)
		}
		return mkInt(tIte(tCmp(">", a, b), a, b), nil)
	case "dur":
		return mkInt(tSel(st.heapGet("T|dur", "(Array Int Int)"), arg(0).S), nil)
	case "armed":
		return mkBool(tSel(st.heapGet("T|armed", "(Array Int Bool)"), arg(0).S))
	case "timerfn":
		return mkInt(tSel(st.heapGet("T|fn", "(Array Int Int)"), arg(0).S), nil)
	case "clofn":
		// clofn(f) == fnid("pkg.func$1")
		return mkInt(tSel(st.heapGet("K|fnid", "(Array Int Int)"), arg(0).S), nil)
	case "fnid":
		s, ok := x.Args[0].(*EStr)
		if !ok {
			return env.fail("fnid needs a string literal")
		}
		key := qualifyKey(s.S, pkgPathOf(env.pkg))
		return mkInt(fmt.Sprint(strID("fn:"+key)), nil)
	case "clovar":
		// clovar(f, "fn", i): i-th captured variable of closure value f of function fn
		s, ok := x.Args[1].(*EStr)
		if !ok {
			return env.fail("clovar(f, \"fn\", i)")
		}
		key := qualifyKey(s.S, pkgPathOf(env.pkg))
		fnn := fx.eng.Funcs[key]
		n, _ := isNum(env.evalInt(x.Args[2]))
		if fnn == nil || n == nil || int(n.Int64()) >= len(fnn.FreeVars) {
			return env.fail("clovar: unknown closure " + key)
		}
		i := int(n.Int64())
		return st.loadLoc(&Loc{Mem: true, Ref: arg(0).S, Idx: "0", Root: "clo:" + shortFn(key) + ":" + fmt.Sprint(i), T: fnn.FreeVars[i].Type()})
	case "held", "rheld":
		// held(p.lockField): write (held) / read (rheld) hold count of that lock by this execution
		sel, ok := x.Args[0].(*ESel)
		if !ok {
			return env.fail("held(obj.lockField)")
		}
		l := env.selLoc(sel.X, sel.Name)
		if l == nil {
			return env.fail("held: not a field location")
		}
		pre := "L|"
		if x.Fun == "rheld" {
			pre = "R|"
		}
		return mkInt(tSel(st.heapGet(pre+l.className(), "(Array Int Int)"), l.Ref), nil)
	case "atomic":
		sel, ok := x.Args[0].(*ESel)
		if !ok {
			return env.fail("atomic(obj.field)")
		}
		l := env.selLoc(sel.X, sel.Name)
		if l == nil {
			return env.fail("atomic: not a field location")
		}
		if strings.Contains(l.T.String(), "atomic.Bool") {
			return mkBool(tSel(st.heapGet("A|"+l.className(), "(Array Int Bool)"), l.Ref))
		}
		return mkInt(tSel(st.heapGet("A|"+l.className(), "(Array Int Int)"), l.Ref), nil)
	case "strOf", "bytesId":
		// the text / content identity of a byte slice (equal contents <=> equal id); the same function the engine uses
		// for string(b) and []byte(s) conversions
		a := arg(0)
		if a.K != KSlice {
			if a.K == KInt {
				return a // already a string id
			}
			return env.fail(x.Fun + " of non-slice")
		}
		fx.sol.Declare("str_of_bytes", "(declare-fun str_of_bytes ((Array Int Int) Int Int) Int)")
		et := a.T.Underlying().(*types.Slice).Elem()
		m := st.heapGet("M|"+typeKey(et)+"|", "(Array Int (Array Int Int))")
		return mkInt("(str_of_bytes "+tSel(m, a.B)+" "+a.O+" "+a.L+")", types.Typ[types.String])
	case "floordiv":
		return mkInt(tDivE(env.evalInt(x.Args[0]), env.evalInt(x.Args[1])), nil)
	case "fnval":
		// fnval("pkg.Func"): the value of that function used as a function value
		sl, ok := x.Args[0].(*EStr)
		if !ok {
			return env.fail("fnval needs a string literal")
		}
		return mkInt(fmt.Sprint(8192+strID("fn:"+sl.S)), nil)
	case "atomicsOf":
		// atomicsOf("pkg.Type.field"): the atomic.Bool state of that field in every object (a ghost map)
		sl, ok := x.Args[0].(*EStr)
		if !ok {
			return env.fail("atomicsOf needs a string literal")
		}
		return &Val{K: KArr, S: st.heapGet("A|"+sl.S, "(Array Int Bool)"), Org: "ghost (Array Int Bool)"}
	case "closed":
		return mkBool(tSel(st.heapGet("X|closed", "(Array Int Bool)"), arg(0).S))
	case "has":
		m := arg(0)
		mt, ok := m.T.Underlying().(*types.Map)
		if !ok {
			return env.fail("has(m, k) on non-map")
		}
		kv := arg(1)
		if kv.T == nil && kv.K == KInt {
			kv = mkInt(kv.S, mt.Key())
		}
		return mkBool(fx.mapHas(st, mt, m.S, fx.mapKeyTerm(st, kv)))
	case "haskey":
		// haskey(m, k): k is an already encoded key term (used under quantifiers)
		m := arg(0)
		mt, ok := m.T.Underlying().(*types.Map)
		if !ok {
			return env.fail("haskey(m, k) on non-map")
		}
		return mkBool(fx.mapHas(st, mt, m.S, env.evalInt(x.Args[1])))
	case "valat":
		m := arg(0)
		mt, ok := m.T.Underlying().(*types.Map)
		if !ok {
			return env.fail("valat(m, k) on non-map")
		}
		return st.loadLoc(fx.mapValLoc(mt, m.S, env.evalInt(x.Args[1])))
	case "keyof":
		// keyof(m, v): the encoded key term for value v in maps of m's type
		m := arg(0)
		mt, ok := m.T.Underlying().(*types.Map)
		if !ok {
			return env.fail("keyof(m, v) on non-map")
		}
		kv := arg(1)
		if kv.T == nil && kv.K == KInt {
			kv = mkInt(kv.S, mt.Key())
		}
		return mkInt(fx.mapKeyTerm(st, kv), nil)
	case "mapkey":
		// mapkey(TypeName, leaf...): the map-key term of a struct value of that type with the given scalar leaves
		id, ok := x.Args[0].(*EIdent)
		if !ok {
			return env.fail("mapkey(TypeName, leaves...)")
		}
		t := fx.eng.lookupType(id.Name, env.pkg)
		if t == nil {
			return env.fail("mapkey: unknown type " + id.Name)
		}
		var xs []string
		for _, a := range x.Args[1:] {
			xs = append(xs, env.evalInt(a))
		}
		return mkInt(fx.mapKeyFromLeaves(t, xs), nil)
	case "structkey":
		return mkInt(fx.mapKeyTerm(st, arg(0)), nil)
	case "ranged":
		// ranged(): the slice a `for ... range <expr>` loop iterates over (it has no name in the source)
		if env.at.b == nil {
			return env.fail("ranged() outside a loop invariant")
		}
		li := fx.loops[env.at.b]
		if li == nil {
			return env.fail("ranged() outside a loop invariant")
		}
		for blk := range li.body {
			for _, ins := range blk.Instrs {
				if ia, ok := ins.(*ssa.IndexAddr); ok {
					if _, isSl := ia.X.Type().Underlying().(*types.Slice); isSl {
						if bo, ok := ia.Index.(*ssa.BinOp); ok {
							if ph, ok := bo.X.(*ssa.Phi); ok && ph.Block() == env.at.b {
								if v, ok := st.env[ia.X]; ok {
									return v
								}
							}
						}
					}
				}
			}
		}
		return env.fail("ranged(): no ranged slice found")
	case "now":
		// the clock value (ns since the epoch) last read through time.Now / time.Since in this execution
		return mkInt(st.heapGet("T|now", "Int"), nil)
	case "errIs":
		fx.errAxioms()
		return mkBool("(errIs " + arg(0).S + " " + arg(1).S + ")")
	case "fresh":
		// allocated during the call / function (not present in the pre-state)
		if env.old == nil {
			return env.fail("fresh() without a pre-state")
		}
		return mkBool(tCmp(">=", arg(0).S, env.old.allocTop))
	case "strlen":
		fx.sol.Declare("strlen", "(declare-fun strlen (Int) Int)")
		return mkInt("(strlen "+arg(0).S+")", nil)
	case "strcat":
		fx.sol.Declare("strcat", "(declare-fun strcat (Int Int) Int)")
		return mkInt("(strcat "+arg(0).S+" "+arg(1).S+")", types.Typ[types.String])
	case "string":
		a := arg(0)
		if a.K == KSlice {
			return fx.convert(st, a, a.T, types.Typ[types.String])
		}
		return a
	case "wrap16":
		return mkInt(tModE(env.evalInt(x.Args[0]), "65536"), nil)
	case "wrap32":
		return mkInt(tModE(env.evalInt(x.Args[0]), "4294967296"), nil)
	case "box":
		return arg(0)
	case "unbox":
		v := arg(0)
		tn := x.Args[1].(*EType).Name
		t := fx.eng.lookupType(tn, env.pkg)
		if t == nil {
			return env.fail("unknown type " + tn)
		}
		if isRefLike(t) {
			return mkInt(v.S, t)
		}
		return st.loadLoc(&Loc{Mem: true, Ref: v.S, Idx: "0", Root: "box:" + typeKey(t), T: t})
	case "seen":
		// seen(k): key k already produced by the map iteration of the innermost enclosing range loop
		it := fx.currentIter(st)
		if it == nil {
			return env.fail("seen() outside a map range loop")
		}
		kv := arg(0)
		if kv.T == nil && kv.K == KInt && it.mapT != nil {
			kv = mkInt(kv.S, it.mapT.Key())
		}
		row := tSel(st.heapGet("I|seen", "(Array Int (Array Int Bool))"), it.id)
		return mkBool(tSel(row, fx.mapKeyTerm(st, kv)))
	case "seenkey":
		it := fx.currentIter(st)
		if it == nil {
			return env.fail("seenkey() outside a map range loop")
		}
		row := tSel(st.heapGet("I|seen", "(Array Int (Array Int Bool))"), it.id)
		return mkBool(tSel(row, env.evalInt(x.Args[0])))
	}
	if t, ok := specConvTypes[x.Fun]; ok && len(x.Args) == 1 {
		v := arg(0)
		if v.K != KInt {
			return env.fail("conversion of non-integer")
		}
		if v.T != nil && isIntegerT(v.T) {
			flo, fhi, _ := intRange(v.T)
			tlo, thi, _ := intRange(t)
			if flo.Cmp(tlo) >= 0 && fhi.Cmp(thi) <= 0 {
				return mkInt(v.S, t)
			}
		}
		if x.Fun == "int" || x.Fun == "int64" {
			// spec integers are mathematical: int(x) of an untyped spec value is the identity
			if v.T == nil || !isIntegerT(v.T) {
				return mkInt(v.S, nil)
			}
		}
		return mkInt(wrapTo(v.S, t), t)
	}
	if sf, ok := fx.eng.CS.Specs[x.Fun]; ok {
		if len(sf.Params) != len(x.Args) {
			return env.fail("spec func " + x.Fun + ": wrong number of arguments")
		}
		if env.depth > 40 {
			return env.fail("spec func recursion too deep: " + x.Fun)
		}
		c := &SpecEnv{fx: fx, st: env.st, old: env.old, vars: map[string]*Val{}, fn: env.fn, pkg: env.pkg, depth: env.depth + 1}
		if sf.Pkg != "" {
			if sp, ok := fx.eng.SSAPkgs[sf.Pkg]; ok {
				c.pkg = sp.Pkg // spec functions are evaluated in the scope of the package that defines them
			}
		}
		// quantifier-bound variables stay visible (spec functions are macros)
		for i, p := range sf.Params {
			c.vars[p] = arg(i)
		}
		if fx.con != nil && fx.con.Opaque[sf.Name] && fx.readLog == nil && env.st.wfSink == nil {
			// opaque: an uninterpreted predicate of the arguments and of the heap arrays the body reads
			var log []string
			fx.readLog = &log
			fx.readSeen = map[string]string{}
			fx.sol.muted++
			nun := len(fx.unsup)
			dry := c.eval(sf.Body)
			fx.sol.muted--
			fx.readLog = nil
			seen := fx.readSeen
			fx.readSeen = nil
			if len(fx.unsup) == nun && dry.K == KBool {
				var terms, sorts []string
				for i := range sf.Params {
					ft, fs, _ := c.flatArgs([]*Val{c.vars[sf.Params[i]]})
					terms = append(terms, ft...)
					sorts = append(sorts, fs...)
				}
				sort.Strings(log)
				sig := ""
				for _, k := range log {
					terms = append(terms, env.st.heapGet(k, seen[k]))
					sorts = append(sorts, seen[k])
					sig += k + ";"
				}
				name := fmt.Sprintf("op_%s_%d", sf.Name, strID("opaque:"+sf.Name+":"+sig))
				fx.sol.Declare(name, "(declare-fun "+name+" ("+strings.Join(sorts, " ")+") Bool)")
				fx.note("spec function " + sf.Name + " kept opaque in this function")
				return mkBool("(" + name + " " + strings.Join(terms, " ") + ")")
			}
		}
		r := c.eval(sf.Body)
		if (r.K == KInt || r.K == KBool) && len(r.S) > 160 && !hasBoundVar(r.S) && !strings.Contains(r.S, "(forall ") && !strings.Contains(r.S, "(exists ") {
			// share large scalar results (e.g. the 35-argument 5-tuple key) instead of repeating the term
			srt := "Int"
			if r.K == KBool {
				srt = "Bool"
			}
			rr := *r
			rr.S = fx.sol.Define("sv_"+sf.Name, r.S, srt, fx.fresh)
			return &rr
		}
		if r.K == KBool && env.st.wfSink == nil && strings.Contains(r.S, "(forall ") && !hasBoundVar(r.S) == false {
			// share identical quantified predicates (same spec function, same arguments, same heap terms)
			hasOuter := false
			for _, v := range env.vars {
				if v != nil && v.K == KInt && hasBoundVar(v.S) {
					hasOuter = true
				}
			}
			if !hasOuter {
				return mkBool(fx.sol.Define("sp_"+sf.Name, r.S, "Bool", fx.fresh))
			}
		}
		return r
	}
	if gf, ok := fx.eng.CS.GFuncs[x.Fun]; ok {
		var args []*Val
		for i := range x.Args {
			args = append(args, arg(i))
		}
		terms, sorts, shape := env.flatArgs(args)
		name := "g_" + gf.Name + "_" + shape
		fx.sol.Declare(name, "(declare-fun "+name+" ("+strings.Join(sorts, " ")+") "+gf.Ret+")")
		fx.ghostUsed(st, gf.Name)
		t := name
		if len(terms) > 0 {
			t = "(" + name + " " + strings.Join(terms, " ") + ")"
		}
		if gf.Ret == "Bool" {
			return mkBool(t)
		}
		return mkInt(t, nil)
	}
	return env.fail("unknown function " + x.Fun)
}

func pkgPathOf(p *types.Package) string {
	if p == nil {
		return ""
	}
	return p.Path()
}

// targets evaluates an assigns entry (in the pre-state).
func (env *SpecEnv) targets(e Expr, src string) []*assignTarget {
	switch x := e.(type) {
	case *EIdent:
		if x.Name == "heap" || x.Name == "everything" {
			return []*assignTarget{{kind: "all", src: src}}
		}
		if g, ok := env.fx.eng.CS.GVars[x.Name]; ok {
			return []*assignTarget{{kind: "ghost", key: "G|" + g.Name, src: src}}
		}
		for _, fv := range env.freeVars {
			if fv.name == x.Name {
				if pt, ok := fv.t.Underlying().(*types.Pointer); ok && fv.v != nil {
					l := env.st.objLoc(fv.v.S, pt.Elem())
					kind := "obj"
					if l.Mem {
						kind = "cell"
					}
					return []*assignTarget{{kind: kind, loc: l, key: leafKey(l, ""), ref: fv.v.S, src: src}}
				}
			}
		}
		if x.Name == "timers" {
			return []*assignTarget{{kind: "ghost", key: "T|dur", src: src}, {kind: "ghost", key: "T|armed", src: src}, {kind: "ghost", key: "T|fn", src: src}}
		}
		if x.Name == "channels" {
			return []*assignTarget{{kind: "ghost", key: "X|closed", src: src}}
		}
	case *ESel:
		l := env.selLoc(x.X, x.Name)
		if l != nil {
			return []*assignTarget{{kind: "field", loc: l, key: leafKey(l, ""), ref: l.Ref, src: src}}
		}
	case *EUnary:
		if x.Op == "*" {
			p := env.eval(x.X)
			if p.K == KInt && p.T != nil {
				if pt, ok := p.T.Underlying().(*types.Pointer); ok {
					l := env.st.objLoc(p.S, pt.Elem())
					kind := "obj"
					if l.Mem {
						kind = "cell"
					}
					return []*assignTarget{{kind: kind, loc: l, key: leafKey(l, ""), ref: p.S, src: src}}
				}
			}
		}
	case *EIndex:
		if id, ok := x.X.(*EIdent); ok {
			if g, ok := env.fx.eng.CS.GVars[id.Name]; ok {
				return []*assignTarget{{kind: "ghost", key: "G|" + g.Name, src: src}}
			}
		}
	case *ECall:
		switch x.Fun {
		case "bytes", "mem":
			v := env.eval(x.Args[0])
			if v.K == KSlice {
				et := v.T.Underlying().(*types.Slice).Elem()
				return []*assignTarget{{kind: "mem", elemT: et, key: "M|" + typeKey(et) + "|", ref: v.B, src: src}}
			}
		case "obj":
			v := env.eval(x.Args[0])
			if v.K == KInt && v.T != nil {
				if pt, ok := v.T.Underlying().(*types.Pointer); ok {
					l := env.st.objLoc(v.S, pt.Elem())
					return []*assignTarget{{kind: "obj", loc: l, key: leafKey(l, ""), ref: v.S, src: src}}
				}
			}
		case "entries":
			v := env.eval(x.Args[0])
			if v.K == KInt && v.T != nil {
				if mt, ok := v.T.Underlying().(*types.Map); ok {
					return []*assignTarget{{kind: "map", mapT: mt, key: "map:" + typeKey(mt), ref: v.S, src: src}}
				}
			}
		case "atomic":
			if sel, ok := x.Args[0].(*ESel); ok {
				if l := env.selLoc(sel.X, sel.Name); l != nil {
					return []*assignTarget{{kind: "ghost", key: "A|" + l.className(), src: src}}
				}
			}
		case "atomics":
			// atomics("pkg.Type.field"): the atomic state of that field in every object
			if sl, ok := x.Args[0].(*EStr); ok {
				return []*assignTarget{{kind: "ghost", key: "A|" + sl.S, src: src}}
			}
		}
	}
	env.fail("unsupported assigns target " + src)
	return []*assignTarget{{kind: "all", src: src}}
}
