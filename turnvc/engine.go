package main

// Engine: loads /repo's working tree (go/packages + go/ssa), the contract files and the external specs.

import (
	"fmt"
	"go/types"
	"os"
	"path/filepath"
	"sort"
	"strings"
	"sync"

	"golang.org/x/tools/go/packages"
	"golang.org/x/tools/go/ssa"
	"golang.org/x/tools/go/ssa/ssautil"
)

type Engine struct {
	RepoDir                  string
	SpecDir                  string
	Pkgs                     []*packages.Package
	Prog                     *ssa.Program
	SSAPkgs                  map[string]*ssa.Package
	Funcs                    map[string]*ssa.Function // by fn.String()
	CS                       *ContractSet
	Sentinels                map[string]int // global var (pkgpath.name) -> constant id
	SentUnexpEnd, SentModEnd int            // ids [4096, SentUnexpEnd): the module's unexported sentinels; [SentUnexpEnd, SentModEnd): exported
	GlobalIDs                map[string]int
	TimeoutMs                int
	mu                       sync.Mutex
	LoadMs                   float64
	Overlay                  map[string][]byte
	Baseline                 map[string]bool // names of the obligations discharged on the unchanged tree (set by `check`)
}

func NewEngine(repo, specs string, timeoutMs int, overlay map[string][]byte) (*Engine, error) {
	e := &Engine{RepoDir: repo, SpecDir: specs, TimeoutMs: timeoutMs, Overlay: overlay,
		SSAPkgs: map[string]*ssa.Package{}, Funcs: map[string]*ssa.Function{}, Sentinels: map[string]int{}, GlobalIDs: map[string]int{}}
	cfg := &packages.Config{Mode: packages.LoadAllSyntax, Dir: repo, BuildFlags: []string{"-tags=verif"}, Overlay: overlay,
		Env: append(os.Environ(), "GOFLAGS=-mod=mod", "GOPROXY=off")}
	pkgs, err := packages.Load(cfg, ".", "./internal/...")
	if err != nil {
		return nil, err
	}
	nerr := 0
	packages.Visit(pkgs, nil, func(p *packages.Package) {
		if strings.HasPrefix(p.PkgPath, modulePath) {
			for _, er := range p.Errors {
				fmt.Fprintln(os.Stderr, "load error:", er)
				nerr++
			}
		}
	})
	if nerr > 0 {
		return nil, fmt.Errorf("%d errors loading /repo packages", nerr)
	}
	e.Pkgs = pkgs
	prog, _ := ssautil.AllPackages(pkgs, ssa.InstantiateGenerics|ssa.GlobalDebug)
	prog.Build()
	e.Prog = prog
	for _, p := range prog.AllPackages() {
		e.SSAPkgs[p.Pkg.Path()] = p
	}
	for fn := range ssautil.AllFunctions(prog) {
		e.Funcs[fn.String()] = fn
	}
	e.findSentinels()
	e.canonStructs()
	// contracts
	e.CS = NewContractSet()
	for _, p := range pkgs {
		if !strings.HasPrefix(p.PkgPath, modulePath) {
			continue
		}
		dir := repo
		if rel := strings.TrimPrefix(p.PkgPath, modulePath); rel != "" {
			dir = filepath.Join(repo, rel)
		}
		f := filepath.Join(dir, "verif_contracts.go")
		if data, ok := overlay[f]; ok {
			if err := e.CS.LoadContractText(string(data), f, p.PkgPath, false); err != nil {
				return nil, err
			}
		} else if _, err := os.Stat(f); err == nil {
			if err := e.CS.LoadContractFile(f, p.PkgPath, false); err != nil {
				return nil, err
			}
		}
	}
	specs2, _ := filepath.Glob(filepath.Join(specs, "*.spec"))
	sort.Strings(specs2)
	for _, f := range specs2 {
		if err := e.CS.LoadContractFile(f, "", true); err != nil {
			return nil, err
		}
	}
	return e, nil
}

// findSentinels: package-level error variables initialised directly by errors.New get distinct non-nil ids.
func (e *Engine) findSentinels() {
	var names []string
	for _, p := range e.Prog.AllPackages() {
		init := p.Func("init")
		if init == nil {
			continue
		}
		for _, b := range init.Blocks {
			for _, ins := range b.Instrs {
				st, ok := ins.(*ssa.Store)
				if !ok {
					continue
				}
				g, ok := st.Addr.(*ssa.Global)
				if !ok {
					continue
				}
				v := st.Val
				if mi, ok := v.(*ssa.MakeInterface); ok {
					v = mi.X
				}
				c, ok := v.(*ssa.Call)
				if !ok {
					continue
				}
				if f := c.Call.StaticCallee(); f != nil && f.String() == "errors.New" {
					names = append(names, g.Pkg.Pkg.Path()+"."+g.Name())
				}
			}
		}
	}
	// numbering: the module's unexported sentinels first, then its exported ones, then everybody else's, so that "is
	// one of the module's (unexported) sentinels" is a range test
	rank := func(n string) int {
		if !strings.HasPrefix(n, modulePath) {
			return 2
		}
		base := n[strings.LastIndex(n, ".")+1:]
		if base[0] >= 'A' && base[0] <= 'Z' {
			return 1
		}
		return 0
	}
	sort.Slice(names, func(i, j int) bool {
		if rank(names[i]) != rank(names[j]) {
			return rank(names[i]) < rank(names[j])
		}
		return names[i] < names[j]
	})
	for i, n := range names {
		e.Sentinels[n] = 4096 + i
		switch rank(n) {
		case 0:
			e.SentUnexpEnd = 4096 + i + 1
			e.SentModEnd = 4096 + i + 1
		case 1:
			e.SentModEnd = 4096 + i + 1
		}
	}
	if e.SentUnexpEnd == 0 {
		e.SentUnexpEnd = 4096
	}
	if e.SentModEnd < e.SentUnexpEnd {
		e.SentModEnd = e.SentUnexpEnd
	}
}

func (e *Engine) globalID(name string) int {
	e.mu.Lock()
	defer e.mu.Unlock()
	if v, ok := e.GlobalIDs[name]; ok {
		return v
	}
	e.GlobalIDs[name] = len(e.GlobalIDs) + 1
	return e.GlobalIDs[name]
}

func inRepo(fn *ssa.Function) bool {
	if fn == nil {
		return false
	}
	p := fn.Package()
	if p == nil {
		if fn.Parent() != nil {
			return inRepo(fn.Parent())
		}
		if o := fn.Object(); o != nil && o.Pkg() != nil {
			return strings.HasPrefix(o.Pkg().Path(), modulePath)
		}
		return false
	}
	return strings.HasPrefix(p.Pkg.Path(), modulePath)
}

// lookupType resolves a type name used in a contract ("*net.UDPAddr", "proto.Data", "ChannelData")
// relative to package pkg.
func (e *Engine) lookupType(name string, pkg *types.Package) types.Type {
	if strings.HasPrefix(name, "*") {
		t := e.lookupType(name[1:], pkg)
		if t == nil {
			return nil
		}
		return types.NewPointer(t)
	}
	if strings.HasPrefix(name, "[]") {
		t := e.lookupType(name[2:], pkg)
		if t == nil {
			return nil
		}
		return types.NewSlice(t)
	}
	if i := strings.LastIndex(name, "."); i >= 0 {
		pn, tn := name[:i], name[i+1:]
		// try exact path, then by package name among loaded packages
		for path, sp := range e.SSAPkgs {
			if path == pn || sp.Pkg.Name() == pn || strings.HasSuffix(path, "/"+pn) {
				if o := sp.Pkg.Scope().Lookup(tn); o != nil {
					if tno, ok := o.(*types.TypeName); ok {
						return tno.Type()
					}
				}
			}
		}
		return nil
	}
	if pkg != nil {
		if o := pkg.Scope().Lookup(name); o != nil {
			if tno, ok := o.(*types.TypeName); ok {
				return tno.Type()
			}
		}
	}
	if o := types.Universe.Lookup(name); o != nil {
		if tno, ok := o.(*types.TypeName); ok {
			return tno.Type()
		}
	}
	return nil
}

// canonStructs groups the transparent named struct types by identical underlying struct.
func (e *Engine) canonStructs() {
	groups := map[string][]string{}
	for _, p := range e.Prog.AllPackages() {
		sc := p.Pkg.Scope()
		for _, n := range sc.Names() {
			tn, ok := sc.Lookup(n).(*types.TypeName)
			if !ok || tn.IsAlias() {
				continue
			}
			st, ok := tn.Type().Underlying().(*types.Struct)
			if !ok || isOpaqueStruct(tn.Type()) || st.NumFields() == 0 {
				continue
			}
			g := types.TypeString(st, nil)
			groups[g] = append(groups[g], typeKey0(tn.Type()))
		}
	}
	for _, ks := range groups {
		if len(ks) < 2 {
			continue
		}
		sort.Strings(ks)
		for _, k := range ks {
			structCanon[k] = ks[0]
		}
	}
}
