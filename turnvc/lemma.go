package main

// Lemmas: closed formulas over spec functions and ghost functions, checked standalone.

import (
	"fmt"
	"strings"
	"time"

	"golang.org/x/tools/go/ssa"
)

func (e *Engine) checkLemmas(prop string) *FnResult {
	var ls []*Lemma
	for _, l := range e.CS.Lemmas {
		if l.HasProp(prop) {
			ls = append(ls, l)
		}
	}
	if len(ls) == 0 {
		return nil
	}
	t0 := time.Now()
	// lemmas are evaluated in the context of a dummy function: pick any repo function for package scope
	var res = &FnResult{Func: "lemmas"}
	for _, l := range ls {
		fx := &FnCtx{eng: e, obls: map[string]*Obligation{}, heapSorts: map[string]string{}, unsup: map[string]bool{}, notes: map[string]bool{},
			params: map[string]*Val{}, keySorts: map[string]string{}, locksTouched: map[string]bool{}, covers: map[string]bool{}, exercised: map[*AtCall]bool{}, ipdomCache: map[*ssa.Function]map[*ssa.BasicBlock]*ssa.BasicBlock{}, joinCache: map[joinKey]*ssa.BasicBlock{}}
		fx.fn = e.anyRepoFunc(l.Where)
		fx.sol = NewSolver(e.TimeoutMs)
		st := &State{fx: fx, heap: map[string]string{}, kep: map[string]int{}}
		fx.sol.DeclareConst("top0", "Int")
		fx.sol.Assert("(>= top0 16384)")
		st.allocTop, st.top0 = "top0", "top0"
		fx.entry = st.snapshot()
		env := &SpecEnv{fx: fx, st: st, old: st, vars: map[string]*Val{}, fn: fx.fn}
		if fx.fn != nil && fx.fn.Pkg != nil {
			env.pkg = fx.fn.Pkg.Pkg
		}
		for _, ax := range e.CS.Axioms {
			fx.assertAxiom(st, ax)
		}
		for _, v := range l.Vars {
			n := fx.fresh("lv_"+v, "Int")
			env.vars[v] = mkInt(n, nil)
		}
		g := env.evalBool(l.E)
		name := "lemma/" + l.Name
		o := &Obligation{Name: name, Kind: "lemma", Props: l.Props, Func: "lemmas", Src: l.Src, Where: l.Where, Instances: 1, Status: "discharged", Backends: map[string]int{}}
		r := fx.sol.CheckNeg(g, nil)
		o.Ms = r.Ms
		o.Backends[r.Backend]++
		switch r.Status {
		case "unsat":
		case "sat":
			o.Status = "failed"
			o.Raw = "sat (" + r.Backend + ")"
		default:
			o.Status = "undecided"
			o.Raw = r.Raw
		}
		res.Obligations = append(res.Obligations, o)
		for u := range fx.unsup {
			res.Unsupported = append(res.Unsupported, fmt.Sprintf("lemma %s: %s", l.Name, u))
		}
		fx.sol.Close()
	}
	res.WallMs = float64(time.Since(t0).Microseconds()) / 1000
	return res
}

func (e *Engine) anyRepoFunc(where string) *ssa.Function {
	// where = "<pkgdir>/verif_contracts.go:line"
	dir := strings.SplitN(where, "/", 2)[0]
	for k, f := range e.Funcs {
		if f.Pkg != nil && strings.HasPrefix(k, modulePath) && (strings.HasSuffix(f.Pkg.Pkg.Path(), "/"+dir) || (dir == "repo" && f.Pkg.Pkg.Path() == modulePath)) && f.Blocks != nil {
			return f
		}
	}
	return nil
}
