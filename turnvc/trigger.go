package main

// Quantifier normalisation: re-parameterise a bound variable that is used as a slice/array index with an
// offset (s[i+k] = (select row (+ off i k))) onto the absolute index, so that the formula can carry the robust
// pattern (select row j). E-matching on arithmetic sub-terms is brittle; matching on a bare variable index is not.

import "strings"

type sx struct {
	atom string
	kids []*sx
}

func parseSx(s string) *sx {
	pos := 0
	var rec func() *sx
	skip := func() {
		for pos < len(s) && (s[pos] == ' ' || s[pos] == '\n' || s[pos] == '\t') {
			pos++
		}
	}
	rec = func() *sx {
		skip()
		if pos >= len(s) {
			return &sx{}
		}
		if s[pos] == '(' {
			pos++
			n := &sx{}
			for {
				skip()
				if pos >= len(s) {
					return n
				}
				if s[pos] == ')' {
					pos++
					return n
				}
				n.kids = append(n.kids, rec())
			}
		}
		st := pos
		for pos < len(s) && s[pos] != ' ' && s[pos] != '(' && s[pos] != ')' && s[pos] != '\n' && s[pos] != '\t' {
			pos++
		}
		return &sx{atom: s[st:pos]}
	}
	return rec()
}

func (n *sx) String() string {
	if n.kids == nil && n.atom != "" {
		return n.atom
	}
	var parts []string
	for _, k := range n.kids {
		parts = append(parts, k.String())
	}
	return "(" + strings.Join(parts, " ") + ")"
}

func (n *sx) contains(v string) bool {
	if n.kids == nil {
		return n.atom == v
	}
	for _, k := range n.kids {
		if k.contains(v) {
			return true
		}
	}
	return false
}

func (n *sx) count(v string) int {
	if n.kids == nil {
		if n.atom == v {
			return 1
		}
		return 0
	}
	c := 0
	for _, k := range n.kids {
		c += k.count(v)
	}
	return c
}

func (n *sx) isCall(op string) bool {
	return len(n.kids) > 0 && n.kids[0].kids == nil && n.kids[0].atom == op
}

// linearPos: v occurs exactly once in idx, with coefficient +1, under + and - only.
func linearPos(idx *sx, v string) bool {
	if idx.kids == nil {
		return idx.atom == v
	}
	if idx.count(v) != 1 {
		return false
	}
	switch {
	case idx.isCall("+"):
		for _, k := range idx.kids[1:] {
			if k.contains(v) {
				return linearPos(k, v)
			}
		}
	case idx.isCall("-") && len(idx.kids) >= 3:
		if idx.kids[1].contains(v) {
			return linearPos(idx.kids[1], v)
		}
	}
	return false
}

func (n *sx) subst(v string, by *sx) *sx {
	if n.kids == nil {
		if n.atom == v {
			return by
		}
		return n
	}
	out := &sx{}
	for _, k := range n.kids {
		out.kids = append(out.kids, k.subst(v, by))
	}
	return out
}

func (n *sx) replaceTerm(old string, by *sx) *sx {
	if n.String() == old {
		return by
	}
	if n.kids == nil {
		return n
	}
	out := &sx{}
	for _, k := range n.kids {
		out.kids = append(out.kids, k.replaceTerm(old, by))
	}
	return out
}

// collect (select A IDX) terms where IDX mentions v and A does not; bound lists the other bound variables
// (a trigger array must not mention any bound variable).
func collectSelects(n *sx, v string, bound []string, out *[]*sx) {
	if n.kids == nil {
		return
	}
	if n.isCall("select") && len(n.kids) == 3 && n.kids[2].contains(v) {
		ok := true
		for _, b := range bound {
			if n.kids[1].contains(b) {
				ok = false
			}
		}
		for _, bad := range []string{"ite", "and", "or", "not", "=", "<", "<=", ">", ">=", "=>"} {
			if n.kids[1].contains(bad) {
				ok = false
			}
		}
		if ok {
			*out = append(*out, n)
		}
	}
	// do not descend into nested quantifiers
	if n.isCall("forall") || n.isCall("exists") {
		return
	}
	for _, k := range n.kids {
		collectSelects(k, v, bound, out)
	}
}

// normaliseForall returns the (possibly re-parameterised) body and a pattern list ("" if none).
func normaliseForall(body string, vars []string) (string, string) {
	tree := parseSx(body)
	var pats []string
	for _, v := range vars {
		var sels []*sx
		collectSelects(tree, v, vars, &sels)
		if len(sels) == 0 {
			return tree.String(), ""
		}
		// prefer an already absolute index, then a two-level (heap memory) select
		var pick *sx
		for _, s := range sels {
			if s.kids[2].kids == nil && s.kids[2].atom == v {
				pick = s
				break
			}
		}
		if pick != nil {
			pats = append(pats, pick.String())
			continue
		}
		for _, s := range sels {
			if linearPos(s.kids[2], v) && s.kids[1].isCall("select") {
				pick = s
				break
			}
		}
		if pick == nil {
			for _, s := range sels {
				if linearPos(s.kids[2], v) {
					pick = s
					break
				}
			}
		}
		if pick == nil {
			return tree.String(), ""
		}
		// j := IDX  =>  v = j - IDX[v:=0]
		idx := pick.kids[2]
		rest := idx.subst(v, &sx{atom: "0"})
		jv := &sx{atom: v} // reuse the same bound name for the absolute index
		newV := &sx{kids: []*sx{{atom: "-"}, jv, rest}}
		marker := &sx{atom: "@@ABS@@"}
		t2 := tree.replaceTerm(idx.String(), marker)
		t2 = t2.subst(v, newV)
		t2 = t2.subst("@@ABS@@", jv)
		tree = t2
		pats = append(pats, "(select "+pick.kids[1].String()+" "+v+")")
	}
	return tree.String(), strings.Join(pats, " ")
}
