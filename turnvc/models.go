package main

// Engine-level models of Go builtins and of a few library functions whose semantics the properties
// depend on (locks, errors, fmt.Errorf, encoding/binary, timers, atomics, time arithmetic).
// Each model is an assumption about code outside /repo and is listed in the evidence when used.

import (
	"fmt"
	"go/constant"
	"go/types"
	"sort"
	"strings"
	"sync"

	"golang.org/x/tools/go/ssa"
)

type model struct {
	writes []string
	apply  func(fx *FnCtx, st *State, cc *ssa.CallCommon, fnv *Val, args []*Val, rt types.Type) *Val
}

var models map[string]*model

var modelsOnce sync.Once

func modelFor(key string) *model {
	modelsOnce.Do(initModels)
	return models[key]
}

// packages / methods assumed to have no effect on the modelled heap when no spec is given
var purePrefixes = []string{
	"fmt.", "strconv.", "strings.", "errors.", "bytes.", "unicode", "math.", "net.JoinHostPort", "net.ParseIP", "(net.IP).", "(*net.UDPAddr).String", "(*net.TCPAddr).String",
	"(*net.UDPAddr).Network", "(*net.TCPAddr).Network", "(net.IPMask).",
	"invoke github.com/pion/logging.LeveledLogger.", "invoke error.Error", "invoke net.Addr.String", "invoke net.Addr.Network", "invoke fmt.Stringer.String",
	"encoding/hex.", "encoding/base64.", "(*encoding/base64.Encoding).", "(time.Duration).", "(time.Time).", "time.Since", "time.Until", "time.Unix", "time.UnixMilli", "crypto/hmac.Equal",
	"crypto/subtle.", "(github.com/pion/stun/v3.", "github.com/pion/stun/v3.NewType", "github.com/pion/stun/v3.IsMessage", "github.com/pion/stun/v3.CheckSize",
	"github.com/pion/stun/v3.CheckOverflow", "github.com/pion/stun/v3.IsAttrSize", "github.com/pion/stun/v3.NewNonce", "github.com/pion/stun/v3.NewRealm", "github.com/pion/stun/v3.NewUsername",
	"github.com/pion/stun/v3.NewSoftware", "(*github.com/pion/stun/v3.Message).Contains", "(*github.com/pion/stun/v3.Message).Get", "(*github.com/pion/stun/v3.Message).String",
	"(*github.com/pion/stun/v3.Message).Equal",
	"context.Background", "context.TODO", "invoke context.Context.",
	"invoke net.PacketConn.LocalAddr", "invoke net.Conn.LocalAddr", "invoke net.Conn.RemoteAddr", "invoke net.Listener.Addr",
	"github.com/pion/turn/v5/internal/allocation.Protocol", "(github.com/pion/turn/v5/internal/allocation.Protocol).String",
	"(*sync.WaitGroup).", "(*sync.Once).", "math/rand.", "sort.", "github.com/pion/randutil.GenerateCryptoRandomString",
}

func isAssumedPure(key string) bool {
	for _, p := range purePrefixes {
		if strings.HasPrefix(key, p) {
			return true
		}
	}
	// String()/Error()/Network() methods on values are conventionally effect-free
	if strings.HasSuffix(key, ").String") || strings.HasSuffix(key, ").Error") || strings.HasSuffix(key, ".String") && strings.HasPrefix(key, "invoke ") {
		return true
	}
	return false
}

func lockClass(st *State, cc *ssa.CallCommon, args []*Val) (string, string) {
	if len(cc.Args) > 0 {
		if l, ok := st.locs[cc.Args[0]]; ok && !l.Mem {
			return l.className(), l.Ref
		}
	}
	if len(args) > 0 {
		return "cell", args[0].S
	}
	return "cell", "0"
}

func (fx *FnCtx) lockOp(st *State, cc *ssa.CallCommon, args []*Val, prefix string, delta int) {
	cls, ref := lockClass(st, cc, args)
	key := prefix + cls
	arr := st.heapGet(key, "(Array Int Int)")
	cur := tSel(arr, ref)
	fx.locksTouched[key] = true
	if delta > 0 {
		// acquiring: a write lock must not already be held by this execution (self-deadlock), nor a read lock
		w := tSel(st.heapGet("L|"+cls, "(Array Int Int)"), ref)
		r := tSel(st.heapGet("R|"+cls, "(Array Int Int)"), ref)
		fx.locksTouched["L|"+cls] = true
		fx.locksTouched["R|"+cls] = true
		if prefix == "L|" {
			fx.oblige(st, fx.oname("lock", "no-self-deadlock "+cls), "lock", &Clause{Props: []string{"C18"}, Label: "no-self-deadlock"}, tAnd(tEq(w, "0"), tEq(r, "0")))
		} else {
			fx.oblige(st, fx.oname("lock", "no-self-deadlock "+cls), "lock", &Clause{Props: []string{"C18"}, Label: "no-self-deadlock"}, tEq(w, "0"))
		}
		fx.lockOrder(st, cls)
		st.heapSet(key, "(Array Int Int)", tSto(arr, ref, tAdd(cur, "1")))
	} else {
		fx.oblige(st, fx.oname("lock", "unlock-of-held "+cls), "lock", &Clause{Props: []string{"C18"}, Label: "unlock-of-held"}, tCmp(">", cur, "0"))
		fx.monitorPoint(st, cls, ref)
		st.heapSet(key, "(Array Int Int)", tSto(arr, ref, tSub(cur, "1")))
	}
}

// lockOrder: acquiring lock class cls while others are held must respect the declared global order.
func (fx *FnCtx) lockOrder(st *State, cls string) {
	lv, ok := lockLevels[cls]
	if !ok {
		return
	}
	for key := range fx.locksTouched {
		other := key[2:]
		olv, ok2 := lockLevels[other]
		if !ok2 || other == cls {
			continue
		}
		if olv >= lv {
			// any instance of `other` still held?  (instances are unknown: require none held via the touched array)
			arr := st.heapGet(key, "(Array Int Int)")
			init := fmt.Sprintf("H0_%s", sanitize(key))
			_ = init
			fx.oblige(st, fx.oname("lock", "order "+other+" < "+cls), "lock", &Clause{Props: []string{"C18"}, Label: "lock-order"},
				tEq(arr, fx.entryLockArr(key)))
		}
	}
}

func (fx *FnCtx) entryLockArr(key string) string {
	if a, ok := fx.entryLocks[key]; ok {
		return a
	}
	return zeroLocks
}

// declared lock order (lower level acquired first); see DESIGN.md C18
var lockLevels = map[string]int{
	"allocation.Manager.lock":                   10,
	"allocation.Allocation.channelBindingsLock": 20,
	"allocation.Allocation.permissionsLock":     30,
	"turn.Client.mutexTrMap":                    10,
	"client.TransactionMap.mutex":               20,
	"client.Transaction.mutex":                  30,
}

func (fx *FnCtx) monitorPoint(st *State, cls, ref string) {}

func initModels() {
	models = map[string]*model{}
	lk := func(prefix string, delta int) *model {
		return &model{writes: []string{"L|", "R|"}, apply: func(fx *FnCtx, st *State, cc *ssa.CallCommon, fnv *Val, args []*Val, rt types.Type) *Val {
			fx.lockOp(st, cc, args, prefix, delta)
			return nil
		}}
	}
	models["(*sync.RWMutex).Lock"] = lk("L|", 1)
	models["(*sync.RWMutex).Unlock"] = lk("L|", -1)
	models["(*sync.RWMutex).RLock"] = lk("R|", 1)
	models["(*sync.RWMutex).RUnlock"] = lk("R|", -1)
	models["(*sync.Mutex).Lock"] = lk("L|", 1)
	models["(*sync.Mutex).Unlock"] = lk("L|", -1)

	models["errors.New"] = &model{apply: func(fx *FnCtx, st *State, cc *ssa.CallCommon, fnv *Val, args []*Val, rt types.Type) *Val {
		r := st.alloc()
		fx.errAxioms()
		fx.sol.Assert("(forall ((t Int)) (! (= (errIs " + r + " t) (= " + r + " t)) :pattern ((errIs " + r + " t))))")
		return mkInt(r, rt)
	}}
	models["errors.Is"] = &model{apply: func(fx *FnCtx, st *State, cc *ssa.CallCommon, fnv *Val, args []*Val, rt types.Type) *Val {
		fx.errAxioms()
		return mkBool("(errIs " + args[0].S + " " + args[1].S + ")")
	}}
	models["fmt.Errorf"] = &model{apply: func(fx *FnCtx, st *State, cc *ssa.CallCommon, fnv *Val, args []*Val, rt types.Type) *Val {
		fx.errAxioms()
		r := st.alloc()
		// which arguments are wrapped (%w)?
		var wrapped []string
		known := false
		if c, ok := cc.Args[0].(*ssa.Const); ok && c.Value != nil && c.Value.Kind() == constant.String {
			known = true
			format := constant.StringVal(c.Value)
			verbs := fmtVerbs(format)
			// variadic args are packed into a slice: find the stores into the backing array
			elems := fx.variadicElems(st, cc.Args[1])
			for i, v := range verbs {
				if v == 'w' && i < len(elems) && elems[i] != nil {
					wrapped = append(wrapped, elems[i].S)
				} else if v == 'w' {
					known = false
				}
			}
		}
		if known {
			alts := []string{"(= " + r + " t)"}
			for _, w := range wrapped {
				alts = append(alts, "(errIs "+w+" t)")
			}
			fx.sol.Assert("(forall ((t Int)) (! (= (errIs " + r + " t) " + tOr(alts...) + ") :pattern ((errIs " + r + " t))))")
		}
		return mkInt(r, rt)
	}}

	be := func(n int, put bool) *model {
		return &model{writes: []string{"M|uint8|", "M|byte|"}, apply: func(fx *FnCtx, st *State, cc *ssa.CallCommon, fnv *Val, args []*Val, rt types.Type) *Val {
			b := args[1]
			fx.oblige(st, fx.oname("safety", "index-bounds"), "safety", nil, tCmp(">=", b.L, fmt.Sprint(n)))
			key := "M|" + typeKey(b.T.Underlying().(*types.Slice).Elem()) + "|"
			m := st.heapGet(key, "(Array Int (Array Int Int))")
			if !put {
				row := tSel(m, b.B)
				acc := "0"
				for i := 0; i < n; i++ {
					by := tSel(row, tAdd(b.O, fmt.Sprint(i)))
					fx.sol.Assert(tAnd(tCmp("<=", "0", by), tCmp("<=", by, "255")))
					acc = tAdd(tMul(acc, "256"), by)
				}
				return mkInt(acc, rt)
			}
			v := args[2].S
			row := tSel(m, b.B)
			fx.checkFrameStore(st, &Loc{Mem: true, Ref: b.B, Idx: b.O, Root: typeKey(b.T.Underlying().(*types.Slice).Elem()), T: b.T.Underlying().(*types.Slice).Elem()})
			for i := 0; i < n; i++ {
				sh := new(bigInt).Lsh(bigOne, uint(8*(n-1-i)))
				by := tModE(tDivE(v, num(sh)), "256")
				row = tSto(row, tAdd(b.O, fmt.Sprint(i)), by)
			}
			st.heapSet(key, "(Array Int (Array Int Int))", tSto(m, b.B, row))
			return nil
		}}
	}
	models["(encoding/binary.bigEndian).Uint16"] = be(2, false)
	models["(encoding/binary.bigEndian).Uint32"] = be(4, false)
	models["(encoding/binary.bigEndian).Uint64"] = be(8, false)
	models["(encoding/binary.bigEndian).PutUint16"] = be(2, true)
	models["(encoding/binary.bigEndian).PutUint32"] = be(4, true)
	models["(encoding/binary.bigEndian).PutUint64"] = be(8, true)

	// timers (ghost: T|dur, T|armed, T|fn)
	models["time.AfterFunc"] = &model{writes: []string{"T|"}, apply: func(fx *FnCtx, st *State, cc *ssa.CallCommon, fnv *Val, args []*Val, rt types.Type) *Val {
		t := st.alloc()
		fx.timerSet(st, t, args[0].S, "true", args[1].S)
		if args[1].Clo != nil {
			fx.note("timer callback " + shortFn(args[1].Clo.fn) + " (verified separately if under contract; fired by the runtime, assumption A2)")
		}
		return mkInt(t, rt)
	}}
	models["time.NewTimer"] = &model{writes: []string{"T|"}, apply: func(fx *FnCtx, st *State, cc *ssa.CallCommon, fnv *Val, args []*Val, rt types.Type) *Val {
		t := st.alloc()
		fx.timerSet(st, t, args[0].S, "true", "")
		return mkInt(t, rt)
	}}
	models["(*time.Timer).Reset"] = &model{writes: []string{"T|"}, apply: func(fx *FnCtx, st *State, cc *ssa.CallCommon, fnv *Val, args []*Val, rt types.Type) *Val {
		t := args[0].S
		fx.oblige(st, fx.oname("safety", "nil-deref"), "safety", nil, tNot(tEq(t, "0")))
		was := tSel(st.heapGet("T|armed", "(Array Int Bool)"), t)
		fx.timerSet(st, t, args[1].S, "true", "")
		return mkBool(was)
	}}
	models["(*time.Timer).Stop"] = &model{writes: []string{"T|"}, apply: func(fx *FnCtx, st *State, cc *ssa.CallCommon, fnv *Val, args []*Val, rt types.Type) *Val {
		t := args[0].S
		fx.oblige(st, fx.oname("safety", "nil-deref"), "safety", nil, tNot(tEq(t, "0")))
		was := tSel(st.heapGet("T|armed", "(Array Int Bool)"), t)
		fx.timerSet(st, t, "", "false", "")
		return mkBool(was)
	}}

	// atomics (state per field class)
	at := func(op string) *model {
		return &model{writes: []string{"A|"}, apply: func(fx *FnCtx, st *State, cc *ssa.CallCommon, fnv *Val, args []*Val, rt types.Type) *Val {
			cls, ref := lockClass(st, cc, args)
			key := "A|" + cls
			sort := "(Array Int Bool)"
			if strings.Contains(op, "Value") {
				sort = "(Array Int Int)"
			}
			arr := st.heapGet(key, sort)
			cur := tSel(arr, ref)
			switch op {
			case "Load":
				return mkBool(cur)
			case "Store":
				st.heapSet(key, sort, tSto(arr, ref, args[1].S))
				return nil
			case "Swap":
				st.heapSet(key, sort, tSto(arr, ref, args[1].S))
				return mkBool(cur)
			case "ValueLoad":
				v := mkInt(cur, rt)
				st.assumeWF(v, false)
				return v
			case "ValueStore":
				st.heapSet(key, sort, tSto(arr, ref, args[1].S))
				return nil
			}
			return nil
		}}
	}
	// sync/atomic functions on plain words: a load / store of the designated location (atomicity of a handler w.r.t.
	// other goroutines is assumption A1; within one execution these are ordinary memory operations)
	plain := func(op string) *model {
		return &model{writes: []string{"F|", "M|"}, apply: func(fx *FnCtx, st *State, cc *ssa.CallCommon, fnv *Val, args []*Val, rt types.Type) *Val {
			fx.oblige(st, fx.oname("safety", "nil-deref"), "safety", nil, tNot(tEq(args[0].S, "0")))
			l := st.ptrLoc(cc.Args[0])
			cur := st.loadLoc(l)
			switch op {
			case "Load":
				return cur
			case "Store":
				st.storeLoc(l, args[1])
				return nil
			case "Swap":
				st.storeLoc(l, args[1])
				return cur
			case "Add":
				nv := mkInt(wrapOnce(tAdd(cur.S, args[1].S), l.T), l.T)
				st.storeLoc(l, nv)
				return nv
			case "CAS":
				c := tEq(cur.S, args[1].S)
				st.storeLoc(l, mkInt(tIte(c, args[2].S, cur.S), l.T))
				return mkBool(c)
			}
			return nil
		}}
	}
	for _, w := range []string{"Int32", "Int64", "Uint32", "Uint64"} {
		models["sync/atomic.Load"+w] = plain("Load")
		models["sync/atomic.Store"+w] = plain("Store")
		models["sync/atomic.Swap"+w] = plain("Swap")
		models["sync/atomic.Add"+w] = plain("Add")
		models["sync/atomic.CompareAndSwap"+w] = plain("CAS")
	}
	models["(*sync/atomic.Bool).Load"] = at("Load")
	models["(*sync/atomic.Bool).Store"] = at("Store")
	models["(*sync/atomic.Bool).Swap"] = at("Swap")
	models["(*sync/atomic.Value).Load"] = at("ValueLoad")
	models["(*sync/atomic.Value).Store"] = at("ValueStore")

	// time arithmetic: time.Time is an Int (nanoseconds since the Unix epoch), durations are nanoseconds
	models["time.Now"] = &model{apply: func(fx *FnCtx, st *State, cc *ssa.CallCommon, fnv *Val, args []*Val, rt types.Type) *Val {
		prev := st.heapGet("T|now", "Int")
		n := fx.fresh("now", "Int")
		fx.sol.Assert(tAnd(tCmp(">=", n, prev), tCmp(">=", n, "0"), tCmp("<", n, "4611686018427387904")))
		st.heapSet("T|now", "Int", n)
		return mkInt(n, rt)
	}}
	models["(time.Duration).Seconds"] = &model{apply: func(fx *FnCtx, st *State, cc *ssa.CallCommon, fnv *Val, args []*Val, rt types.Type) *Val {
		fx.sol.Declare("dur_seconds", "(declare-fun dur_seconds (Int) Int)")
		return mkInt("(dur_seconds "+args[0].S+")", rt)
	}}
	models["(time.Time).Unix"] = &model{apply: func(fx *FnCtx, st *State, cc *ssa.CallCommon, fnv *Val, args []*Val, rt types.Type) *Val {
		return mkInt(tDivE(args[0].S, "1000000000"), rt)
	}}
	models["(time.Time).UnixMilli"] = &model{apply: func(fx *FnCtx, st *State, cc *ssa.CallCommon, fnv *Val, args []*Val, rt types.Type) *Val {
		return mkInt(tDivE(args[0].S, "1000000"), rt)
	}}
	models["(time.Time).Add"] = &model{apply: func(fx *FnCtx, st *State, cc *ssa.CallCommon, fnv *Val, args []*Val, rt types.Type) *Val {
		return mkInt(tAdd(args[0].S, args[1].S), rt)
	}}
	models["time.UnixMilli"] = &model{apply: func(fx *FnCtx, st *State, cc *ssa.CallCommon, fnv *Val, args []*Val, rt types.Type) *Val {
		return mkInt(tMul(args[0].S, "1000000"), rt)
	}}
	models["time.Since"] = &model{apply: func(fx *FnCtx, st *State, cc *ssa.CallCommon, fnv *Val, args []*Val, rt types.Type) *Val {
		prev := st.heapGet("T|now", "Int")
		n := fx.fresh("now", "Int")
		fx.sol.Assert(tAnd(tCmp(">=", n, prev), tCmp(">=", n, "0"), tCmp("<", n, "4611686018427387904")))
		st.heapSet("T|now", "Int", n)
		// time.Duration saturates; within the assumed clock range the difference is exact when |d| < 2^63
		d := tSub(n, args[0].S)
		sat := tIte(tCmp(">", d, "9223372036854775807"), "9223372036854775807", tIte(tCmp("<", d, "(- 9223372036854775808)"), "(- 9223372036854775808)", d))
		return mkInt(sat, rt)
	}}
}

func (fx *FnCtx) timerSet(st *State, t, dur, armed, fn string) {
	if dur != "" {
		a := st.heapGet("T|dur", "(Array Int Int)")
		st.heapSet("T|dur", "(Array Int Int)", tSto(a, t, dur))
	}
	if armed != "" {
		a := st.heapGet("T|armed", "(Array Int Bool)")
		st.heapSet("T|armed", "(Array Int Bool)", tSto(a, t, armed))
	}
	if fn != "" {
		a := st.heapGet("T|fn", "(Array Int Int)")
		st.heapSet("T|fn", "(Array Int Int)", tSto(a, t, fn))
	}
}

func (fx *FnCtx) errAxioms() {
	fx.sol.Declare("errIs", "(declare-fun errIs (Int Int) Bool)")
	// (re)asserted whenever the frame that held them has been popped
	key := "errIs-axioms"
	if e, ok := fx.sol.defs[key]; ok && fx.sol.frameActive(e.frame) {
		return
	}
	fx.sol.defs[key] = defEntry{"", fx.sol.frames[len(fx.sol.frames)-1].id}
	fx.sol.Assert("(forall ((t Int)) (! (= (errIs 0 t) (= t 0)) :pattern ((errIs 0 t))))")
	fx.sol.Assert("(forall ((e Int)) (! (=> (not (= e 0)) (errIs e e)) :pattern ((errIs e e))))")
	// sentinel errors created by errors.New match only themselves
	var ids []int
	for _, id := range fx.eng.Sentinels {
		ids = append(ids, id)
	}
	sort.Ints(ids)
	for _, id := range ids {
		s := fmt.Sprint(id)
		fx.sol.Assert("(forall ((t Int)) (! (= (errIs " + s + " t) (= " + s + " t)) :pattern ((errIs " + s + " t))))")
	}
}

func fmtVerbs(f string) []byte {
	var out []byte
	for i := 0; i < len(f); i++ {
		if f[i] != '%' {
			continue
		}
		i++
		for i < len(f) && strings.IndexByte("+-# 0123456789.[]*", f[i]) >= 0 {
			i++
		}
		if i < len(f) && f[i] != '%' {
			out = append(out, f[i])
		}
	}
	return out
}

// variadicElems recovers the elements of a variadic argument built as `new [n]T; store...; slice`.
func (fx *FnCtx) variadicElems(st *State, v ssa.Value) []*Val {
	sl, ok := v.(*ssa.Slice)
	if !ok {
		return nil
	}
	al, ok := sl.X.(*ssa.Alloc)
	if !ok {
		return nil
	}
	arr, ok := al.Type().(*types.Pointer).Elem().Underlying().(*types.Array)
	if !ok {
		return nil
	}
	out := make([]*Val, arr.Len())
	base := st.val(al).S
	for i := range out {
		out[i] = st.loadLoc(&Loc{Mem: true, Ref: base, Idx: fmt.Sprint(i), Root: typeKey(arr.Elem()), T: arr.Elem(), RootT: arr.Elem()})
	}
	return out
}

// ---------- builtins ----------

func (fx *FnCtx) builtin(st *State, name string, cc *ssa.CallCommon, args []*Val, ct types.Type) *Val {
	sol := fx.sol
	switch name {
	case "len":
		a := args[0]
		switch {
		case a.K == KSlice:
			return mkInt(a.L, types.Typ[types.Int])
		case a.K == KArr:
			return mkInt(fmt.Sprint(arrLen(a.T)), types.Typ[types.Int])
		case isStringT(cc.Args[0].Type()):
			sol.Declare("strlen", "(declare-fun strlen (Int) Int)")
			r := "(strlen " + a.S + ")"
			sol.Assert(tAnd(tCmp(">=", r, "0"), tEq(tEq(r, "0"), tEq(a.S, "0"))))
			return mkInt(r, types.Typ[types.Int])
		default:
			if mt, ok := cc.Args[0].Type().Underlying().(*types.Map); ok {
				n := tSel(st.heapGet("N|"+typeKey(mt), "(Array Int Int)"), a.S)
				sol.Assert(tCmp(">=", n, "0"))
				return mkInt(tIte(tEq(a.S, "0"), "0", n), types.Typ[types.Int])
			}
			if pt, ok := cc.Args[0].Type().Underlying().(*types.Pointer); ok {
				return mkInt(fmt.Sprint(arrLen(pt.Elem())), types.Typ[types.Int])
			}
			r := st.freshVal(types.Typ[types.Int], "len")
			sol.Assert(tCmp(">=", r.S, "0"))
			return r
		}
	case "cap":
		a := args[0]
		if a.K == KSlice {
			return mkInt(a.C, types.Typ[types.Int])
		}
		if a.K == KArr {
			return mkInt(fmt.Sprint(arrLen(a.T)), types.Typ[types.Int])
		}
		r := st.freshVal(types.Typ[types.Int], "cap")
		sol.Assert(tCmp(">=", r.S, "0"))
		return r
	case "copy":
		dst, src := args[0], args[1]
		et := cc.Args[0].Type().Underlying().(*types.Slice).Elem()
		if isStringT(cc.Args[1].Type()) {
			// copy(dst, string): contents unconstrained
			n := fx.fresh("ncopy", "Int")
			sol.Declare("strlen", "(declare-fun strlen (Int) Int)")
			sol.Assert(tEq(n, tIte(tCmp("<", dst.L, "(strlen "+src.S+")"), dst.L, "(strlen "+src.S+")")))
			key := "M|" + typeKey(et) + "|"
			m := st.heapGet(key, "(Array Int (Array Int Int))")
			st.heapSet(key, "(Array Int (Array Int Int))", tSto(m, dst.B, fx.fresh("copied", "(Array Int Int)")))
			return mkInt(n, types.Typ[types.Int])
		}
		n := fx.fresh("ncopy", "Int")
		sol.Assert(tEq(n, tIte(tCmp("<", dst.L, src.L), dst.L, src.L)))
		fx.checkFrameStore(st, &Loc{Mem: true, Ref: dst.B, Idx: dst.O, Root: typeKey(et), T: et})
		fx.memCopy(st, et, dst.B, dst.O, src.B, src.O, n, "", "", "")
		return mkInt(n, types.Typ[types.Int])
	case "append":
		return fx.appendOp(st, cc, args, ct)
	case "delete":
		mt := cc.Args[0].Type().Underlying().(*types.Map)
		fx.mapDelete(st, args[0], mt, args[1])
		return nil
	case "close":
		ch := args[0].S
		k := "X|closed"
		a := st.heapGet(k, "(Array Int Bool)")
		fx.oblige(st, fx.oname("safety", "close-of-open-channel"), "safety", nil, tAnd(tNot(tEq(ch, "0")), tNot(tSel(a, ch))))
		st.heapSet(k, "(Array Int Bool)", tSto(a, ch, "true"))
		return nil
	case "min", "max":
		r := args[0].S
		for _, a := range args[1:] {
			if name == "min" {
				r = tIte(tCmp("<", a.S, r), a.S, r)
			} else {
				r = tIte(tCmp(">", a.S, r), a.S, r)
			}
		}
		return mkInt(r, ct)
	case "print", "println":
		return nil
	case "recover":
		return zeroVal(ct)
	case "ssa:wrapnilchk":
		fx.oblige(st, fx.oname("safety", "nil-deref"), "safety", nil, tNot(tEq(args[0].S, "0")))
		return args[0]
	}
	fx.unsupported("builtin " + name)
	if ct != nil {
		return st.freshVal(ct, "builtin")
	}
	return nil
}

// memCopy: for every leaf of element type et, dst memory [do, do+n) := src memory [so, so+n); when
// newBase != "" the destination row is instead built on top of row `under` (used by append on reallocation).
func (fx *FnCtx) memCopy(st *State, et types.Type, db, do, sb, so, n string, under, underOff, underLen string) {
	var ls []leaf
	leavesOf(et, "", &ls)
	for _, lf := range ls {
		if lf.arr {
			fx.unsupported("copy of slices of arrays")
			continue
		}
		key := "M|" + typeKey(et) + "|" + lf.path
		sort := heapSort(key, lf.sort)
		m := st.heapGet(key, sort)
		srcRow := tSel(m, sb)
		dstRow := tSel(m, db)
		nr := fx.fresh("row", "(Array Int "+lf.sort+")")
		i := "i"
		body := tIte(tAnd(tCmp("<=", do, i), tCmp("<", i, tAdd(do, n))), tSel(srcRow, tAdd(so, tSub(i, do))), tSel(dstRow, i))
		fx.sol.Assert("(forall ((i Int)) (! (= (select " + nr + " i) " + body + ") :pattern ((select " + nr + " i))))")
		st.heapSet(key, sort, tSto(m, db, nr))
	}
}

func (fx *FnCtx) appendOp(st *State, cc *ssa.CallCommon, args []*Val, ct types.Type) *Val {
	s, e := args[0], args[1]
	sl := cc.Args[0].Type().Underlying().(*types.Slice)
	et := sl.Elem()
	sol := fx.sol
	var eB, eO, eL string
	if isStringT(cc.Args[1].Type()) {
		// append([]byte, string...)
		conv := fx.convert(st, e, cc.Args[1].Type(), cc.Args[0].Type())
		eB, eO, eL = conv.B, conv.O, conv.L
	} else {
		eB, eO, eL = e.B, e.O, e.L
	}
	newLen := tAdd(s.L, eL)
	fits := fx.fresh("fits", "Bool")
	sol.Assert(tEq(fits, tCmp("<=", newLen, s.C)))
	nb := st.alloc()
	ncap := fx.fresh("ncap", "Int")
	sol.Assert(tAnd(tCmp(">=", ncap, newLen), tCmp("<=", ncap, maxAlloc)))
	sol.Assert(tCmp("<=", newLen, maxAlloc)) // allocation beyond maxAlloc panics ("growslice: len out of range"); not reachable with real memory
	rB := tIte(fits, s.B, nb)
	rO := tIte(fits, s.O, "0")
	rC := tIte(fits, s.C, ncap)
	// appending nothing to a nil slice yields nil
	isNilRes := tAnd(tEq(s.B, "0"), tEq(eL, "0"))
	rB = tIte(isNilRes, "0", rB)
	rC = tIte(isNilRes, "0", rC)
	// name the composite results so that later terms (and quantifier patterns) stay free of ite
	name := func(hint, t string) string {
		if _, isN := isNum(t); isN || !strings.HasPrefix(t, "(") {
			return t
		}
		c := fx.fresh(hint, "Int")
		sol.Assert(tEq(c, t))
		return c
	}
	rB, rO, rC = name("appB", rB), name("appO", rO), name("appC", rC)
	newLen = name("appL", newLen)
	// frame: in-place writes touch s's backing array
	if fx.con != nil && fx.con.HasFrame {
		fx.sol.Push()
		fx.sol.Assert(tAnd(fits, tCmp(">", eL, "0")))
		fx.checkFrameStore(st, &Loc{Mem: true, Ref: s.B, Idx: s.O, Root: typeKey(et), T: et})
		fx.sol.Pop()
	}
	var ls []leaf
	leavesOf(et, "", &ls)
	for _, lf := range ls {
		if lf.arr {
			fx.unsupported("append on slices of arrays")
			continue
		}
		key := "M|" + typeKey(et) + "|" + lf.path
		sort := heapSort(key, lf.sort)
		m := st.heapGet(key, sort)
		oldRow := tSel(m, s.B)
		srcRow := tSel(m, eB)
		nr := fx.fresh("row", "(Array Int "+lf.sort+")")
		z := "0"
		if lf.sort == "Bool" {
			z = "false"
		}
		i := "i"
		// new row: appended elements at [rO+len, rO+newLen); below that the old contents (in place: whole old row; reallocated: copied prefix)
		body := tIte(tAnd(tCmp("<=", tAdd(rO, s.L), i), tCmp("<", i, tAdd(rO, newLen))),
			tSel(srcRow, tAdd(eO, tSub(i, tAdd(rO, s.L)))),
			tIte(fits, tSel(oldRow, i), tIte(tAnd(tCmp("<=", "0", i), tCmp("<", i, s.L)), tSel(oldRow, tAdd(s.O, i)), z)))
		sol.Assert("(forall ((i Int)) (! (= (select " + nr + " i) " + body + ") :pattern ((select " + nr + " i))))")
		nm := fx.fresh("mem", sort)
		sol.Assert(tEq(nm, tIte(isNilRes, m, tSto(m, rB, nr))))
		st.heapSet(key, sort, nm)
	}
	return &Val{K: KSlice, T: ct, B: rB, O: rO, L: newLen, C: rC}
}

// ---------- maps ----------

func (fx *FnCtx) mapKeyTerm(st *State, k *Val) string {
	if k.K == KInt {
		return k.S
	}
	if k.K == KBool {
		return tIte(k.S, "1", "0")
	}
	var xs []string
	var collect func(v *Val)
	collect = func(v *Val) {
		switch v.K {
		case KInt:
			xs = append(xs, v.S)
		case KBool:
			xs = append(xs, tIte(v.S, "1", "0"))
		case KArr:
			for i := int64(0); i < arrLen(v.T); i++ {
				xs = append(xs, tSel(v.S, numI(i)))
			}
		case KSlice:
			xs = append(xs, v.B, v.O, v.L)
		default:
			for _, f := range v.Fs {
				collect(f)
			}
		}
	}
	collect(k)
	return fx.mapKeyFromLeaves(k.T, xs)
}

func (fx *FnCtx) mapKeyFromLeaves(kt types.Type, xs []string) string {
	name := "mkkey_" + sanitize(typeKey(kt))
	var sorts []string
	for range xs {
		sorts = append(sorts, "Int")
	}
	fx.sol.Declare(name, "(declare-fun "+name+" ("+strings.Join(sorts, " ")+") Int)")
	t := "(" + name + " " + strings.Join(xs, " ") + ")"
	hasBound := hasBoundVar(t)
	if !hasBound && len(xs) > 4 {
		t = fx.sol.Define("key", t, "Int", fx.fresh)
	}
	for i, x := range xs {
		inv := fmt.Sprintf("%s_inv%d", name, i)
		fx.sol.Declare(inv, "(declare-fun "+inv+" (Int) Int)")
		if hasBound {
			fx.sol.Assert(tEq("("+inv+" "+t+")", x))
		} else {
			fx.sol.AssertOnce(tEq("("+inv+" "+t+")", x))
		}
	}
	return t
}

func mapKeys(mt *types.Map) (p, n string) {
	k := typeKey(mt)
	return "P|" + k, "N|" + k
}

func (fx *FnCtx) mapInit(st *State, r string, mt *types.Map) {
	pk, nk := mapKeys(mt)
	p := st.heapGet(pk, "(Array Int (Array Int Bool))")
	st.heapSet(pk, "(Array Int (Array Int Bool))", tSto(p, r, "((as const (Array Int Bool)) false)"))
	n := st.heapGet(nk, "(Array Int Int)")
	st.heapSet(nk, "(Array Int Int)", tSto(n, r, "0"))
}

func (fx *FnCtx) mapValLoc(mt *types.Map, m, k string) *Loc {
	return &Loc{Mem: true, Ref: m, Idx: k, Root: "map:" + typeKey(mt), T: mt.Elem(), RootT: mt.Elem()}
}

func (fx *FnCtx) mapHas(st *State, mt *types.Map, m, k string) string {
	pk, _ := mapKeys(mt)
	p := st.heapGet(pk, "(Array Int (Array Int Bool))")
	return tAnd(tNot(tEq(m, "0")), tSel(tSel(p, m), k))
}

func (fx *FnCtx) lookup(st *State, x *ssa.Lookup) {
	mt, ok := x.X.Type().Underlying().(*types.Map)
	if !ok {
		// string index
		sv := st.val(x.X)
		iv := st.val(x.Index).S
		fx.sol.Declare("strlen", "(declare-fun strlen (Int) Int)")
		fx.sol.Declare("strbyte", "(declare-fun strbyte (Int Int) Int)")
		fx.oblige(st, fx.oname("safety", "index-bounds"), "safety", nil, tAnd(tCmp("<=", "0", iv), tCmp("<", iv, "(strlen "+sv.S+")")))
		r := mkInt("(strbyte "+sv.S+" "+iv+")", types.Typ[types.Uint8])
		st.assumeWF(r, false)
		st.env[x] = r
		return
	}
	m := st.val(x.X)
	fx.guardedMapOp(st, m, false)
	k := fx.mapKeyTerm(st, st.val(x.Index))
	has := fx.mapHas(st, mt, m.S, k)
	okc := fx.fresh("mapok", "Bool")
	fx.sol.Assert(tEq(okc, has))
	v := st.loadLoc(fx.mapValLoc(mt, m.S, k))
	v = iteVal(okc, v, zeroVal(mt.Elem()))
	if x.CommaOk {
		st.env[x] = &Val{K: KTuple, T: x.Type(), Fs: []*Val{v, mkBool(okc)}}
	} else {
		st.env[x] = v
	}
}

// guardedAccess: the declared lock discipline (`guarded F by L`): an access to field F of object o, or to the map
// stored in it, needs o.L held (for writing: exclusively) unless o was allocated by this very execution and is not yet
// shared. Obligation kind "lock" (C18).
func (fx *FnCtx) guardedAccess(st *State, class, owner string, write bool) {
	lock, ok := fx.eng.CS.Guarded[class]
	if !ok || owner == "" {
		return
	}
	w := tSel(st.heapGet("L|"+lock, "(Array Int Int)"), owner)
	held := tCmp(">", w, "0")
	if !write {
		r := tSel(st.heapGet("R|"+lock, "(Array Int Int)"), owner)
		held = tOr(held, tCmp(">", r, "0"))
	}
	goal := tOr(held, tCmp(">=", owner, st.top0))
	what := "read"
	if write {
		what = "write"
	}
	fx.oblige(st, fx.oname("lock", "guarded "+what+" "+class), "lock", &Clause{Props: []string{"C18"}, Label: "guarded-by", Src: class + " guarded by " + lock}, goal)
}

func (fx *FnCtx) guardedMapOp(st *State, m *Val, write bool) {
	if m == nil || m.Owner == "" || !strings.HasPrefix(m.Org, "field ") {
		return
	}
	fx.guardedAccess(st, strings.TrimPrefix(m.Org, "field "), m.Owner, write)
}

func (fx *FnCtx) mapUpdate(st *State, m *Val, mt *types.Map, kv, v *Val) {
	fx.guardedMapOp(st, m, true)
	fx.oblige(st, fx.oname("safety", "nil-map-write"), "safety", nil, tNot(tEq(m.S, "0")))
	k := fx.mapKeyTerm(st, kv)
	pk, nk := mapKeys(mt)
	fx.checkFrameStore(st, &Loc{Mem: true, Ref: m.S, Idx: k, Root: "map:" + typeKey(mt), T: mt.Elem()})
	p := st.heapGet(pk, "(Array Int (Array Int Bool))")
	had := tSel(tSel(p, m.S), k)
	n := st.heapGet(nk, "(Array Int Int)")
	st.heapSet(nk, "(Array Int Int)", tSto(n, m.S, tAdd(tSel(n, m.S), tIte(had, "0", "1"))))
	st.heapSet(pk, "(Array Int (Array Int Bool))", tSto(p, m.S, tSto(tSel(p, m.S), k, "true")))
	st.storeLoc(fx.mapValLoc(mt, m.S, k), v)
}

func (fx *FnCtx) mapDelete(st *State, m *Val, mt *types.Map, kv *Val) {
	fx.guardedMapOp(st, m, true)
	k := fx.mapKeyTerm(st, kv)
	pk, nk := mapKeys(mt)
	fx.checkFrameStore(st, &Loc{Mem: true, Ref: m.S, Idx: k, Root: "map:" + typeKey(mt), T: mt.Elem()})
	p := st.heapGet(pk, "(Array Int (Array Int Bool))")
	had := tAnd(tNot(tEq(m.S, "0")), tSel(tSel(p, m.S), k))
	n := st.heapGet(nk, "(Array Int Int)")
	st.heapSet(nk, "(Array Int Int)", tSto(n, m.S, tSub(tSel(n, m.S), tIte(had, "1", "0"))))
	// delete on a nil map is a no-op
	st.heapSet(pk, "(Array Int (Array Int Bool))", tIte(tEq(m.S, "0"), p, tSto(p, m.S, tSto(tSel(p, m.S), k, "false"))))
}

func (fx *FnCtx) rangeInit(st *State, x *ssa.Range) {
	m := st.val(x.X)
	fx.guardedMapOp(st, m, false)
	id := st.alloc()
	it := &iterInfo{m: m, id: id}
	if mt, ok := x.X.Type().Underlying().(*types.Map); ok {
		it.mapT = mt
		// nothing visited yet
		a := st.heapGet("I|seen", "(Array Int (Array Int Bool))")
		st.heapSet("I|seen", "(Array Int (Array Int Bool))", tSto(a, id, "((as const (Array Int Bool)) false)"))
	}
	st.iters[x] = it
	st.lastIter = it
	st.env[x] = mkInt(id, x.Type())
}

func (fx *FnCtx) rangeNext(st *State, x *ssa.Next) {
	it := st.iters[x.Iter]
	if it == nil || it.mapT == nil {
		fx.note("range over string modelled as arbitrary iteration")
		st.env[x] = st.freshVal(x.Type(), "next")
		return
	}
	mt := it.mapT
	ok := fx.fresh("nextok", "Bool")
	k := st.freshVal(mt.Key(), "nextk")
	kt := fx.mapKeyTerm(st, k)
	seen := st.heapGet("I|seen", "(Array Int (Array Int Bool))")
	row := tSel(seen, it.id)
	has := fx.mapHas(st, mt, it.m.S, kt)
	fx.sol.Assert(tImp(ok, tAnd(has, tNot(tSel(row, kt)))))
	// exhausted: every present key has been visited
	pk, _ := mapKeys(mt)
	p := st.heapGet(pk, "(Array Int (Array Int Bool))")
	fx.sol.Assert(tImp(tNot(ok), "(forall ((kk Int)) (! (=> "+tAnd(tNot(tEq(it.m.S, "0")), "(select (select "+p+" "+it.m.S+") kk)")+" (select "+row+" kk)) :pattern ((select (select "+p+" "+it.m.S+") kk))))"))
	st.heapSet("I|seen", "(Array Int (Array Int Bool))", tIte(ok, tSto(seen, it.id, tSto(row, kt, "true")), seen))
	v := st.loadLoc(fx.mapValLoc(mt, it.m.S, kt))
	st.env[x] = &Val{K: KTuple, T: x.Type(), Fs: []*Val{mkBool(ok), k, v}}
}

// ---------- channels ----------

// chanInv evaluates the declared invariant of channel ch for the element value v ("" when none is declared).
func (fx *FnCtx) chanInv(st *State, ch *Val, v *Val) (string, *Clause) {
	cl := fx.eng.CS.ChanInvs[strings.TrimPrefix(ch.Org, "field ")]
	if cl == nil {
		return "", nil
	}
	env := fx.fnEnv(st, st.curPoint)
	env.useLocals = false
	env.vars["v"] = v
	return env.evalBool(cl.E), cl
}

// atSends: per-function clauses about a value being sent on a channel (`at-send cls assert P(v)`).
func (fx *FnCtx) atSends(st *State, ch, v *Val) {
	if fx.con == nil {
		return
	}
	cls := strings.TrimPrefix(ch.Org, "field ")
	for _, as := range fx.con.AtSends {
		if as.Callee != cls {
			continue
		}
		env := fx.fnEnv(st, st.curPoint)
		env.vars["v"] = v
		fx.exercised[as] = true
		fx.oblige(st, fx.oname("at-send", cls+"]"+as.Tag()), "at-send", &as.Clause, env.evalBool(as.E))
	}
}

func (fx *FnCtx) sendOp(st *State, x *ssa.Send) {
	ch := st.val(x.Chan)
	fx.atSends(st, ch, st.val(x.X))
	if g, cl := fx.chanInv(st, ch, st.val(x.X)); cl != nil {
		fx.oblige(st, fx.oname("chan-inv", "send "+strings.TrimPrefix(ch.Org, "field ")), "chan-inv", cl, g)
	}
	fx.note("channel send: may block (see nonblocking obligations)")
	cls := ch.Org
	if fx.con != nil {
		for _, r := range fx.con.Ensures {
			_ = r
		}
	}
	if fx.con != nil && fx.con.Blocking {
		fx.note("NOT CHECKED: the send on " + strings.TrimPrefix(cls, "field ") + " may block (declared `blocking`: rendezvous with a waiting receiver)")
		return
	}
	fx.oblige(st, fx.oname("nonblocking", "send "+strings.TrimPrefix(cls, "field ")), "nonblocking",
		&Clause{Props: []string{"C09", "C13"}, Label: "nonblocking-send"}, fx.chanHasRoom(st, ch))
}

func (fx *FnCtx) chanHasRoom(st *State, ch *Val) string {
	q := st.heapGet("X|qlen", "(Array Int Int)")
	c := st.heapGet("X|qcap", "(Array Int Int)")
	return tCmp("<", tSel(q, ch.S), tSel(c, ch.S))
}

func (fx *FnCtx) selectOp(st *State, x *ssa.Select) {
	// result tuple: (index int, recvOk bool, recv values...)
	idx := fx.fresh("selidx", "Int")
	n := len(x.States)
	lo := "0"
	if !x.Blocking {
		lo = "(- 1)"
	}
	fx.sol.Assert(tAnd(tCmp("<=", lo, idx), tCmp("<", idx, fmt.Sprint(n))))
	closed := st.heapGet("X|closed", "(Array Int Bool)")
	for i, s := range x.States {
		ch := st.val(s.Chan)
		if s.Dir == types.RecvOnly {
			if fx.isSignalChan(ch) {
				// close-only signal channel: ready iff closed
				fx.sol.Assert(tEq(tEq(idx, fmt.Sprint(i)), tSel(closed, ch.S)))
			}
		}
	}
	tup := &Val{K: KTuple, T: x.Type(), Fs: []*Val{mkInt(idx, types.Typ[types.Int]), mkBool(fx.fresh("recvok", "Bool"))}}
	tt := x.Type().(*types.Tuple)
	for i := 2; i < tt.Len(); i++ {
		tup.Fs = append(tup.Fs, st.freshVal(tt.At(i).Type(), "selrecv"))
	}
	// declared channel invariants: checked for the value of every send state, assumed for a received value
	ri := 2
	for i, s := range x.States {
		ch := st.val(s.Chan)
		if s.Dir == types.SendOnly {
			fx.atSends(st, ch, st.val(s.Send))
			if g, cl := fx.chanInv(st, ch, st.val(s.Send)); cl != nil {
				fx.oblige(st, fx.oname("chan-inv", "send "+strings.TrimPrefix(ch.Org, "field ")), "chan-inv", cl, g)
			}
			continue
		}
		if ri < len(tup.Fs) {
			if g, cl := fx.chanInv(st, ch, tup.Fs[ri]); cl != nil {
				fx.sol.Assert(tImp(tEq(idx, fmt.Sprint(i)), g))
			}
			ri++
		}
	}
	st.env[x] = tup
}

func (fx *FnCtx) isSignalChan(ch *Val) bool {
	return fx.eng.CS.Signals[strings.TrimPrefix(ch.Org, "field ")]
}
