package main

// Symbolic values and the type-directed shape of Go values in the SMT encoding.

import (
	"fmt"
	"go/types"
	"math/big"
	"strings"
)

type Kind int

const (
	KInt Kind = iota // Int-sorted: integers, pointers, interfaces, strings, maps, chans, funcs, opaque structs, floats
	KBool
	KSlice
	KStruct
	KTuple
	KArr // fixed-size array of Int-sorted elements: S is an (Array Int Int) term
)

type Val struct {
	K          Kind
	T          types.Type
	S          string
	B, O, L, C string // slice: base, offset, length, capacity
	Fs         []*Val
	Owner      string // for values loaded from a struct field: the reference of the object holding the field
	Org        string // provenance for dynamic calls, e.g. "field github.com/.../allocation.Manager.permissionHandler"
	Clo        *cloInfo
}

type cloInfo struct {
	fn       string // ssa function name
	bindings []*Val
}

const modulePath = "github.com/pion/turn/v5"

var transparentStructs = map[string]bool{
	"net.UDPAddr": true, "net.TCPAddr": true,
	"github.com/pion/stun/v3.Message": true, "github.com/pion/stun/v3.RawAttribute": true,
	"github.com/pion/stun/v3.MessageType": true, "github.com/pion/stun/v3.ErrorCodeAttribute": true,
	"github.com/pion/stun/v3.XORMappedAddress": true,
}

func isOpaqueStruct(t types.Type) bool {
	n, ok := t.(*types.Named)
	if !ok {
		if a, ok := t.(*types.Alias); ok {
			return isOpaqueStruct(types.Unalias(a))
		}
		return false
	}
	if _, ok := n.Underlying().(*types.Struct); !ok {
		return false
	}
	if n.Obj().Pkg() == nil {
		return false
	}
	p := n.Obj().Pkg().Path()
	if strings.HasPrefix(p, modulePath) {
		return false
	}
	return !transparentStructs[p+"."+n.Obj().Name()]
}

func kindOf(t types.Type) Kind {
	switch u := t.Underlying().(type) {
	case *types.Basic:
		if u.Info()&types.IsBoolean != 0 {
			return KBool
		}
		return KInt
	case *types.Slice:
		return KSlice
	case *types.Struct:
		if isOpaqueStruct(t) {
			return KInt
		}
		return KStruct
	case *types.Tuple:
		return KTuple
	case *types.Array:
		if kindOf(u.Elem()) == KInt || kindOf(u.Elem()) == KBool {
			return KArr
		}
		return KInt
	}
	return KInt
}

func sanitize(s string) string {
	var b strings.Builder
	for _, c := range s {
		switch {
		case c >= 'a' && c <= 'z', c >= 'A' && c <= 'Z', c >= '0' && c <= '9', c == '_':
			b.WriteRune(c)
		case c == '*':
			b.WriteString("P")
		case c == '.':
			b.WriteString("_")
		case c == '/':
			b.WriteString("_")
		case c == '$':
			b.WriteString("S")
		case c == '|':
			b.WriteString("I")
		case c == '[':
			b.WriteString("L")
		case c == ']':
			b.WriteString("R")
		}
	}
	return b.String()
}

// structCanon maps the typeKey of a named struct type to the canonical key of its class of identical
// underlying structs (pointer conversions between such types alias the same storage). Filled by the engine.
var structCanon = map[string]string{}

func typeKey(t types.Type) string {
	k := typeKey0(t)
	if c, ok := structCanon[k]; ok {
		return c
	}
	return k
}

func typeKey0(t types.Type) string {
	t = types.Unalias(t)
	switch x := t.(type) {
	case *types.Named:
		// named non-struct types share storage with their underlying type (pointer conversions are legal)
		switch u := x.Underlying().(type) {
		case *types.Basic:
			return typeKey0(u)
		case *types.Slice:
			return "[]" + typeKey(u.Elem())
		}
		if x.Obj().Pkg() != nil {
			p := x.Obj().Pkg().Path()
			p = strings.TrimPrefix(p, modulePath+"/internal/")
			p = strings.TrimPrefix(p, "github.com/pion/")
			if p == modulePath {
				p = "turn"
			}
			return p + "." + x.Obj().Name()
		}
		return x.Obj().Name()
	case *types.Pointer:
		return "*" + typeKey0(x.Elem())
	case *types.Slice:
		return "[]" + typeKey(x.Elem())
	case *types.Basic:
		switch x.Kind() {
		case types.Uint8:
			return "uint8"
		case types.Int32:
			return "int32"
		}
		return x.Name()
	}
	return t.String()
}

// leaf describes one scalar component of a (possibly structured) type.
type leaf struct {
	path string // "" | "3" | "3.1" | with slice suffixes ".b" ".o" ".l" ".c"
	sort string // Int | Bool
	t    types.Type
	arr  bool // array-typed leaf (content lives in memory, addressed by location)
}

func leavesOf(t types.Type, prefix string, out *[]leaf) {
	switch kindOf(t) {
	case KBool:
		*out = append(*out, leaf{prefix, "Bool", t, false})
	case KInt:
		*out = append(*out, leaf{prefix, "Int", t, false})
	case KSlice:
		for _, s := range []string{"b", "o", "l", "c"} {
			*out = append(*out, leaf{joinPath(prefix, s), "Int", t, false})
		}
	case KArr:
		*out = append(*out, leaf{prefix, "Int", t, true})
	case KStruct:
		st := t.Underlying().(*types.Struct)
		for i := 0; i < st.NumFields(); i++ {
			leavesOf(st.Field(i).Type(), joinPath(prefix, fmt.Sprint(i)), out)
		}
	case KTuple:
		tu := t.(*types.Tuple)
		for i := 0; i < tu.Len(); i++ {
			leavesOf(tu.At(i).Type(), joinPath(prefix, fmt.Sprint(i)), out)
		}
	}
}

func joinPath(a, b string) string {
	if a == "" {
		return b
	}
	if b == "" {
		return a
	}
	return a + "." + b
}

func mkInt(s string, t types.Type) *Val { return &Val{K: KInt, T: t, S: s} }
func mkBool(s string) *Val              { return &Val{K: KBool, T: types.Typ[types.Bool], S: s} }

func intRange(t types.Type) (lo, hi *big.Int, ok bool) {
	b, isB := t.Underlying().(*types.Basic)
	if !isB || b.Info()&types.IsInteger == 0 {
		return nil, nil, false
	}
	bits := 64
	switch b.Kind() {
	case types.Int8, types.Uint8:
		bits = 8
	case types.Int16, types.Uint16:
		bits = 16
	case types.Int32, types.Uint32:
		bits = 32
	}
	one := big.NewInt(1)
	if b.Info()&types.IsUnsigned != 0 {
		return big.NewInt(0), new(big.Int).Sub(new(big.Int).Lsh(one, uint(bits)), one), true
	}
	h := new(big.Int).Lsh(one, uint(bits-1))
	return new(big.Int).Neg(h), new(big.Int).Sub(h, one), true
}

func isUnsigned(t types.Type) bool {
	b, ok := t.Underlying().(*types.Basic)
	return ok && b.Info()&types.IsUnsigned != 0
}

func isIntegerT(t types.Type) bool {
	b, ok := t.Underlying().(*types.Basic)
	return ok && b.Info()&types.IsInteger != 0
}

func isStringT(t types.Type) bool {
	b, ok := t.Underlying().(*types.Basic)
	return ok && b.Info()&types.IsString != 0
}

func isFloatT(t types.Type) bool {
	b, ok := t.Underlying().(*types.Basic)
	return ok && b.Info()&types.IsFloat != 0
}

func isRefLike(t types.Type) bool {
	switch t.Underlying().(type) {
	case *types.Pointer, *types.Map, *types.Chan, *types.Signature, *types.Interface:
		return true
	}
	return false
}

// rangeFact returns the SMT range constraint for an Int-sorted term of type t ("true" if none).
func rangeFact(s string, t types.Type) string {
	if t == nil {
		return "true"
	}
	if lo, hi, ok := intRange(t); ok {
		if _, isN := isNum(s); isN {
			return "true"
		}
		return tAnd(tCmp("<=", num(lo), s), tCmp("<=", s, num(hi)))
	}
	return "true"
}

// wrap reduces an exact integer term into the range of t (Go's wrap-around semantics).
func wrapTo(s string, t types.Type) string {
	lo, hi, ok := intRange(t)
	if !ok {
		return s
	}
	if n, isN := isNum(s); isN {
		m := new(big.Int).Add(new(big.Int).Sub(hi, lo), big.NewInt(1))
		r := new(big.Int).Sub(n, lo)
		r.Mod(r, m)
		r.Add(r, lo)
		return num(r)
	}
	m := new(big.Int).Add(new(big.Int).Sub(hi, lo), big.NewInt(1))
	if lo.Sign() == 0 {
		return tModE(s, num(m))
	}
	// signed: ((s - lo) mod m) + lo
	return tAdd(tModE(tSub(s, num(lo)), num(m)), num(lo))
}

// wrapOnce is wrapTo for results known to be off by at most one modulus (add/sub of in-range operands).
func wrapOnce(s string, t types.Type) string {
	lo, hi, ok := intRange(t)
	if !ok {
		return s
	}
	if _, isN := isNum(s); isN {
		return wrapTo(s, t)
	}
	m := num(new(big.Int).Add(new(big.Int).Sub(hi, lo), big.NewInt(1)))
	return tIte(tCmp(">", s, num(hi)), tSub(s, m), tIte(tCmp("<", s, num(lo)), tAdd(s, m), s))
}

func (v *Val) String() string {
	switch v.K {
	case KInt, KBool, KArr:
		return v.S
	case KSlice:
		return fmt.Sprintf("slice{%s,%s,%s,%s}", v.B, v.O, v.L, v.C)
	default:
		var xs []string
		for _, f := range v.Fs {
			xs = append(xs, f.String())
		}
		return "{" + strings.Join(xs, ", ") + "}"
	}
}

// scalar leaves of a value in the same order as leavesOf(v.T).
func (v *Val) flat(out *[]string) {
	switch v.K {
	case KInt, KBool, KArr:
		*out = append(*out, v.S)
	case KSlice:
		*out = append(*out, v.B, v.O, v.L, v.C)
	default:
		for _, f := range v.Fs {
			f.flat(out)
		}
	}
}

// unflat rebuilds a value of type t from scalar terms.
func unflat(t types.Type, xs []string, i *int) *Val {
	switch kindOf(t) {
	case KBool:
		v := mkBool(xs[*i])
		v.T = t
		*i++
		return v
	case KInt:
		v := mkInt(xs[*i], t)
		*i++
		return v
	case KArr:
		v := &Val{K: KArr, T: t, S: xs[*i]}
		*i++
		return v
	case KSlice:
		v := &Val{K: KSlice, T: t, B: xs[*i], O: xs[*i+1], L: xs[*i+2], C: xs[*i+3]}
		*i += 4
		return v
	case KStruct:
		st := t.Underlying().(*types.Struct)
		v := &Val{K: KStruct, T: t}
		for k := 0; k < st.NumFields(); k++ {
			v.Fs = append(v.Fs, unflat(st.Field(k).Type(), xs, i))
		}
		return v
	case KTuple:
		tu := t.(*types.Tuple)
		v := &Val{K: KTuple, T: t}
		for k := 0; k < tu.Len(); k++ {
			v.Fs = append(v.Fs, unflat(tu.At(k).Type(), xs, i))
		}
		return v
	}
	panic("unflat")
}

func arrLen(t types.Type) int64 {
	if a, ok := t.Underlying().(*types.Array); ok {
		return a.Len()
	}
	return 0
}

// eqVal builds the SMT equality of two values of the same shape (Go ==).
func eqVal(a, b *Val) string {
	switch a.K {
	case KInt, KBool:
		return tEq(a.S, b.S)
	case KArr:
		if a.T == nil && b.T == nil {
			return tEq(a.S, b.S) // ghost maps: extensional equality
		}
		var n int64
		if a.T != nil {
			n = arrLen(a.T)
		}
		if n == 0 && b.T != nil {
			n = arrLen(b.T)
		}
		var cs []string
		for i := int64(0); i < n; i++ {
			cs = append(cs, tEq(tSel(a.S, numI(i)), tSel(b.S, numI(i))))
		}
		return tAnd(cs...)
	case KSlice: // only == nil is legal in Go; used for spec-level sameSlice
		return tAnd(tEq(a.B, b.B), tEq(a.O, b.O), tEq(a.L, b.L))
	default:
		var cs []string
		for i := range a.Fs {
			cs = append(cs, eqVal(a.Fs[i], b.Fs[i]))
		}
		return tAnd(cs...)
	}
}

func iteVal(c string, a, b *Val) *Val {
	if c == "true" {
		return a
	}
	if c == "false" {
		return b
	}
	switch a.K {
	case KInt, KBool, KArr:
		return &Val{K: a.K, T: a.T, S: tIte(c, a.S, b.S)}
	case KSlice:
		return &Val{K: KSlice, T: a.T, B: tIte(c, a.B, b.B), O: tIte(c, a.O, b.O), L: tIte(c, a.L, b.L), C: tIte(c, a.C, b.C)}
	default:
		v := &Val{K: a.K, T: a.T}
		for i := range a.Fs {
			v.Fs = append(v.Fs, iteVal(c, a.Fs[i], b.Fs[i]))
		}
		return v
	}
}

type bigInt = big.Int

var bigOne = big.NewInt(1)
