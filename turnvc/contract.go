package main

// Contract language: lexer, parser, contract-file structure.
//
// Contracts are `//@` comment lines (Gobra style) in guarded comment-only files
// /repo/<pkg>/verif_contracts.go, and the same syntax without the `//@` prefix requirement in
// /verif/specs/*.spec for functions outside /repo (assumed contracts).

import (
	"fmt"
	"math/big"
	"os"
	"path/filepath"
	"regexp"
	"sort"
	"strings"
	"sync"
)

// ---------- AST ----------

type Expr interface{}

type (
	EIdent struct{ Name string }
	EInt   struct{ V *big.Int }
	EBool  struct{ V bool }
	EStr   struct{ S string }
	EUnary struct {
		Op string
		X  Expr
	}
	EBinary struct {
		Op   string
		X, Y Expr
	}
	ECond struct{ C, A, B Expr }
	ECall struct {
		Fun  string
		Args []Expr
	}
	EIndex struct{ X, I Expr }
	ESlice struct{ X, Lo, Hi Expr }
	ESel   struct {
		X    Expr
		Name string
	}
	ETypeAssert struct {
		X    Expr
		Type string
	}
	EQuant struct {
		Forall bool
		Vars   []string
		Body   Expr
	}
	EType struct{ Name string } // a type used as an argument (typeis, cast)
)

// ---------- lexer ----------

type tok struct {
	k string // ident int str op eof
	s string
}

func lex(src string) ([]tok, error) {
	var out []tok
	i := 0
	for i < len(src) {
		c := src[i]
		switch {
		case c == ' ' || c == '\t' || c == '\n' || c == '\r':
			i++
		case c == '/' && i+1 < len(src) && src[i+1] == '/':
			for i < len(src) && src[i] != '\n' {
				i++
			}
		case isIdStart(c):
			j := i
			for j < len(src) && (isIdStart(src[j]) || (src[j] >= '0' && src[j] <= '9') || src[j] == '$') {
				j++
			}
			out = append(out, tok{"ident", src[i:j]})
			i = j
		case c >= '0' && c <= '9':
			j := i
			if c == '0' && j+1 < len(src) && (src[j+1] == 'x' || src[j+1] == 'X') {
				j += 2
				for j < len(src) && isHex(src[j]) {
					j++
				}
			} else {
				for j < len(src) && ((src[j] >= '0' && src[j] <= '9') || src[j] == '_') {
					j++
				}
			}
			out = append(out, tok{"int", strings.ReplaceAll(src[i:j], "_", "")})
			i = j
		case c == '"':
			j := i + 1
			for j < len(src) && src[j] != '"' {
				if src[j] == '\\' {
					j++
				}
				j++
			}
			if j >= len(src) {
				return nil, fmt.Errorf("unterminated string")
			}
			out = append(out, tok{"str", src[i+1 : j]})
			i = j + 1
		default:
			ops := []string{"==>", "<==", "::", "==", "!=", "<=", ">=", "&&", "||", "<<", ">>", "+", "-", "*", "/", "%", "<", ">", "!", "(", ")", "[", "]", ",", ".", "?", ":", "=", "{", "}", "&", "|"}
			matched := false
			for _, op := range ops {
				if strings.HasPrefix(src[i:], op) {
					out = append(out, tok{"op", op})
					i += len(op)
					matched = true
					break
				}
			}
			if !matched {
				return nil, fmt.Errorf("unexpected character %q", c)
			}
		}
	}
	out = append(out, tok{"eof", ""})
	return out, nil
}

func isIdStart(c byte) bool {
	return c == '_' || (c >= 'a' && c <= 'z') || (c >= 'A' && c <= 'Z')
}
func isHex(c byte) bool {
	return (c >= '0' && c <= '9') || (c >= 'a' && c <= 'f') || (c >= 'A' && c <= 'F')
}

// ---------- parser ----------

type parser struct {
	ts  []tok
	pos int
}

func (p *parser) peek() tok { return p.ts[p.pos] }
func (p *parser) next() tok { t := p.ts[p.pos]; p.pos++; return t }
func (p *parser) isOp(s string) bool {
	t := p.peek()
	return t.k == "op" && t.s == s
}
func (p *parser) accept(s string) bool {
	if p.isOp(s) {
		p.pos++
		return true
	}
	return false
}
func (p *parser) expect(s string) error {
	if !p.accept(s) {
		return fmt.Errorf("expected %q, found %q", s, p.peek().s)
	}
	return nil
}

func ParseExpr(src string) (Expr, error) {
	ts, err := lex(src)
	if err != nil {
		return nil, err
	}
	p := &parser{ts: ts}
	e, err := p.parseExpr()
	if err != nil {
		return nil, fmt.Errorf("%v in %q", err, src)
	}
	if p.peek().k != "eof" {
		return nil, fmt.Errorf("trailing %q in %q", p.peek().s, src)
	}
	return e, nil
}

func (p *parser) parseExpr() (Expr, error) {
	t := p.peek()
	if t.k == "ident" && (t.s == "forall" || t.s == "exists") {
		p.next()
		var vars []string
		for {
			v := p.next()
			if v.k != "ident" {
				return nil, fmt.Errorf("quantifier variable expected")
			}
			vars = append(vars, v.s)
			// optional type name
			if p.peek().k == "ident" {
				p.next()
			}
			if !p.accept(",") {
				break
			}
		}
		if err := p.expect("::"); err != nil {
			return nil, err
		}
		body, err := p.parseExpr()
		if err != nil {
			return nil, err
		}
		return &EQuant{Forall: t.s == "forall", Vars: vars, Body: body}, nil
	}
	return p.parseImp()
}

func (p *parser) parseImp() (Expr, error) {
	l, err := p.parseCond()
	if err != nil {
		return nil, err
	}
	if p.accept("==>") {
		r, err := p.parseExprNoQuantTail()
		if err != nil {
			return nil, err
		}
		return &EBinary{"==>", l, r}, nil
	}
	return l, nil
}

// right side of ==> may itself be a quantifier or another implication
func (p *parser) parseExprNoQuantTail() (Expr, error) { return p.parseExpr() }

func (p *parser) parseCond() (Expr, error) {
	c, err := p.parseOr()
	if err != nil {
		return nil, err
	}
	if p.accept("?") {
		a, err := p.parseCond()
		if err != nil {
			return nil, err
		}
		if err := p.expect(":"); err != nil {
			return nil, err
		}
		b, err := p.parseCond()
		if err != nil {
			return nil, err
		}
		return &ECond{c, a, b}, nil
	}
	return c, nil
}

func (p *parser) parseOr() (Expr, error) {
	l, err := p.parseAnd()
	if err != nil {
		return nil, err
	}
	for p.accept("||") {
		r, err := p.parseAnd()
		if err != nil {
			return nil, err
		}
		l = &EBinary{"||", l, r}
	}
	return l, nil
}

func (p *parser) parseAnd() (Expr, error) {
	l, err := p.parseCmp()
	if err != nil {
		return nil, err
	}
	for p.accept("&&") {
		r, err := p.parseCmp()
		if err != nil {
			return nil, err
		}
		l = &EBinary{"&&", l, r}
	}
	return l, nil
}

func (p *parser) parseCmp() (Expr, error) {
	l, err := p.parseAddE()
	if err != nil {
		return nil, err
	}
	for {
		t := p.peek()
		if t.k == "op" && (t.s == "==" || t.s == "!=" || t.s == "<" || t.s == "<=" || t.s == ">" || t.s == ">=") {
			p.next()
			r, err := p.parseAddE()
			if err != nil {
				return nil, err
			}
			// chained comparison a <= b < c  ==>  a <= b && b < c
			if lb, ok := l.(*EBinary); ok && isCmpOp(lb.Op) && lb.Op != "==" && lb.Op != "!=" && t.s != "==" && t.s != "!=" {
				l = &EBinary{"&&", l, &EBinary{t.s, lb.Y, r}}
			} else if la, ok := l.(*EBinary); ok && la.Op == "&&" {
				if lb, ok := la.Y.(*EBinary); ok && isCmpOp(lb.Op) && lb.Op != "==" && lb.Op != "!=" && t.s != "==" && t.s != "!=" {
					l = &EBinary{"&&", l, &EBinary{t.s, lb.Y, r}}
				} else {
					l = &EBinary{t.s, l, r}
				}
			} else {
				l = &EBinary{t.s, l, r}
			}
			continue
		}
		return l, nil
	}
}

func isCmpOp(s string) bool {
	return s == "==" || s == "!=" || s == "<" || s == "<=" || s == ">" || s == ">="
}

func (p *parser) parseAddE() (Expr, error) {
	l, err := p.parseMulE()
	if err != nil {
		return nil, err
	}
	for {
		t := p.peek()
		if t.k == "op" && (t.s == "+" || t.s == "-") {
			p.next()
			r, err := p.parseMulE()
			if err != nil {
				return nil, err
			}
			l = &EBinary{t.s, l, r}
			continue
		}
		return l, nil
	}
}

func (p *parser) parseMulE() (Expr, error) {
	l, err := p.parseUnary()
	if err != nil {
		return nil, err
	}
	for {
		t := p.peek()
		if t.k == "op" && (t.s == "*" || t.s == "/" || t.s == "%" || t.s == "<<" || t.s == ">>") {
			p.next()
			r, err := p.parseUnary()
			if err != nil {
				return nil, err
			}
			l = &EBinary{t.s, l, r}
			continue
		}
		return l, nil
	}
}

func (p *parser) parseUnary() (Expr, error) {
	if p.accept("!") {
		x, err := p.parseUnary()
		if err != nil {
			return nil, err
		}
		return &EUnary{"!", x}, nil
	}
	if p.accept("-") {
		x, err := p.parseUnary()
		if err != nil {
			return nil, err
		}
		return &EUnary{"-", x}, nil
	}
	if p.accept("*") {
		x, err := p.parseUnary()
		if err != nil {
			return nil, err
		}
		return &EUnary{"*", x}, nil
	}
	return p.parsePostfix()
}

func (p *parser) parseTypeName() (string, error) {
	s := ""
	for p.accept("*") {
		s += "*"
	}
	if p.accept("[") {
		if err := p.expect("]"); err != nil {
			return "", err
		}
		s += "[]"
	}
	t := p.next()
	if t.k != "ident" {
		return "", fmt.Errorf("type name expected, found %q", t.s)
	}
	s += t.s
	for p.isOp(".") || p.isOp("/") {
		op := p.next().s
		t2 := p.next()
		if t2.k != "ident" && t2.k != "int" {
			return "", fmt.Errorf("type name expected")
		}
		s += op + t2.s
	}
	return s, nil
}

func (p *parser) parsePostfix() (Expr, error) {
	var x Expr
	if t0 := p.peek(); t0.k == "ident" && (t0.s == "forall" || t0.s == "exists") {
		return p.parseExpr()
	}
	t := p.next()
	switch t.k {
	case "int":
		n, ok := new(big.Int).SetString(t.s, 0)
		if !ok {
			return nil, fmt.Errorf("bad integer %q", t.s)
		}
		x = &EInt{n}
	case "str":
		x = &EStr{t.s}
	case "ident":
		switch t.s {
		case "true":
			x = &EBool{true}
		case "false":
			x = &EBool{false}
		case "nil":
			x = &EInt{big.NewInt(0)}
		default:
			if p.isOp("(") {
				p.next()
				// builtins that take a type as second argument
				var args []Expr
				if !p.isOp(")") {
					for {
						if (t.s == "typeis" || t.s == "unbox") && len(args) == 1 {
							tn, err := p.parseTypeName()
							if err != nil {
								return nil, err
							}
							args = append(args, &EType{tn})
						} else {
							a, err := p.parseExpr()
							if err != nil {
								return nil, err
							}
							args = append(args, a)
						}
						if !p.accept(",") {
							break
						}
					}
				}
				if err := p.expect(")"); err != nil {
					return nil, err
				}
				x = &ECall{t.s, args}
			} else {
				x = &EIdent{t.s}
			}
		}
	case "op":
		if t.s == "(" {
			e, err := p.parseExpr()
			if err != nil {
				return nil, err
			}
			if err := p.expect(")"); err != nil {
				return nil, err
			}
			x = e
		} else {
			return nil, fmt.Errorf("unexpected %q", t.s)
		}
	default:
		return nil, fmt.Errorf("unexpected end of expression")
	}
	for {
		switch {
		case p.isOp("."):
			p.next()
			if p.accept("(") {
				tn, err := p.parseTypeName()
				if err != nil {
					return nil, err
				}
				if err := p.expect(")"); err != nil {
					return nil, err
				}
				x = &ETypeAssert{x, tn}
				continue
			}
			n := p.next()
			if n.k != "ident" {
				return nil, fmt.Errorf("field name expected after '.'")
			}
			// qualified call pkg.F(...)
			if id, ok := x.(*EIdent); ok && p.isOp("(") {
				_ = id
			}
			x = &ESel{x, n.s}
		case p.isOp("["):
			p.next()
			var lo, hi Expr
			var err error
			if !p.isOp(":") {
				lo, err = p.parseExpr()
				if err != nil {
					return nil, err
				}
			}
			if p.accept(":") {
				if !p.isOp("]") {
					hi, err = p.parseExpr()
					if err != nil {
						return nil, err
					}
				}
				if err := p.expect("]"); err != nil {
					return nil, err
				}
				x = &ESlice{x, lo, hi}
			} else {
				if err := p.expect("]"); err != nil {
					return nil, err
				}
				x = &EIndex{x, lo}
			}
		default:
			return x, nil
		}
	}
}

// ---------- contract structures ----------

type Clause struct {
	Props []string // property ids
	Label string
	E     Expr
	Src   string
	Where string // file:line
}

func (c *Clause) Tag() string {
	if len(c.Props) == 0 && c.Label == "" {
		return "[" + c.Where[strings.LastIndex(c.Where, ":")+1:] + "]"
	}
	return "[" + strings.Join(c.Props, ",") + ":" + c.Label + "]"
}

func (c *Clause) HasProp(p string) bool {
	for _, x := range c.Props {
		if x == p {
			return true
		}
	}
	return false
}

type AtCall struct {
	Callee string
	Clause
}

type Contract struct {
	Key       string
	File      string
	Requires  []*Clause
	Ensures   []*Clause
	Assigns   []Expr
	AssignSrc []string
	HasFrame  bool // explicit assigns/pure
	Pure      bool
	Trusted   bool // body not verified (external / assumed)
	Iterated  bool // closure invoked repeatedly by a callee (ForEach): requires must be re-established
	LoopInv   map[int][]*Clause
	LoopDec   map[int]*Clause
	AtCalls   []*AtCall
	Props     map[string]bool
	External  bool
	NoBody    bool   // contract only used at call sites
	Blocking  bool   // channel sends in this body may block by design (rendezvous); no nonblocking obligation
	EntryHeld []Expr // locks the caller holds when it calls this function (`entry-held x.mu`): held exactly once at entry
	AssumePre bool   // callee preconditions and run-time checks of this body are assumed, not checked (listed as unchecked)
	Inline    bool   // the contract is verified for the body, but callers still inline the body (keeps dispatch precise)
	AtReturns []*Clause
	AtSends   []*AtCall
	LockOnly  bool   // only the lock obligations (C18) are generated for the body; everything else is assumed
	Ghost     string // free-form note
	Fresh     []string
	Covers    []*Clause
	GhostSets []*GhostSet
	Opaque    map[string]bool
	Iterates  string // name of the parameter holding a callback this function invokes zero or more times
}

// GhostSet: `ghost-set g[idx] = val when cond` (ghost code run at every return of the function)
type GhostSet struct {
	Var            string
	Idx, Val, Cond Expr
	Src            string
}

type SpecFunc struct {
	Name   string
	Params []string
	Body   Expr
	Src    string
	Pkg    string // defining package path ("" for spec files)
}

type GhostFunc struct {
	Name  string
	Arity int
	Ret   string // Int | Bool
}

type GhostVar struct {
	Name     string
	TypeName string // for pointer-typed ghost variables ("*stun.Message"): the Go type its value has in contracts
	Sort     string // SMT sort
}

type Lemma struct {
	Clause
	Name string
	Vars []string
}

type Axiom struct {
	Clause
	Vars []string
}

type ContractSet struct {
	axMu     sync.Mutex
	axGhosts map[*Axiom][]string
	Funcs    map[string]*Contract
	Specs    map[string]*SpecFunc
	GFuncs   map[string]*GhostFunc
	GVars    map[string]*GhostVar
	Lemmas   []*Lemma
	Axioms   []*Axiom
	Signals  map[string]bool    // "pkg.Type.field" channels used as close-only signals
	Guarded  map[string]string  // "pkg.Type.field" -> "pkg.Type.lockfield" (same object): lock discipline, C18
	ChanInvs map[string]*Clause // "pkg.Type.field" -> invariant over `v` of every value sent on that channel
	Order    []string
}

func NewContractSet() *ContractSet {
	return &ContractSet{Funcs: map[string]*Contract{}, Specs: map[string]*SpecFunc{}, GFuncs: map[string]*GhostFunc{}, GVars: map[string]*GhostVar{}, Signals: map[string]bool{}}
}

var tagRe = regexp.MustCompile(`^\[([A-Za-z0-9,]*)(?::([A-Za-z0-9_\-\.]+))?\]\s*`)

func parseTags(s string) (props []string, label string, rest string) {
	m := tagRe.FindStringSubmatch(s)
	if m == nil {
		return nil, "", s
	}
	for _, p := range strings.Split(m[1], ",") {
		if p != "" {
			props = append(props, p)
		}
	}
	return props, m[2], s[len(m[0]):]
}

var clauseKW = map[string]bool{"requires": true, "ensures": true, "assigns": true, "pure": true, "trusted": true, "loop": true,
	"at-call": true, "at-return": true, "at-send": true, "func": true, "spec": true, "ghost": true, "lemma": true, "axiom": true, "iterated": true, "signal": true, "fresh": true, "cover": true, "nobody": true, "lockonly": true, "inline-at-calls": true, "assume-callee-pre": true, "entry-held": true, "blocking": true, "chaninv": true, "guarded": true, "ghost-set": true, "moninv": true, "opaque": true, "iterates": true}

// LoadContractFile parses one contract file. pkgPath qualifies short function keys ("" for spec files,
// whose keys are already fully qualified).
func (cs *ContractSet) LoadContractFile(path, pkgPath string, external bool) error {
	data, err := os.ReadFile(path)
	if err != nil {
		return err
	}
	return cs.LoadContractText(string(data), path, pkgPath, external)
}

func (cs *ContractSet) LoadContractText(text, path, pkgPath string, external bool) error {
	type stmt struct {
		text string
		line int
	}
	var stmts []stmt
	for i, raw := range strings.Split(text, "\n") {
		l := strings.TrimSpace(raw)
		if strings.HasPrefix(l, "//@") {
			l = strings.TrimSpace(l[3:])
		} else if strings.HasSuffix(path, ".spec") {
			// spec files: every non-comment line counts
			if strings.HasPrefix(l, "#") {
				continue
			}
		} else {
			continue
		}
		if l == "" || strings.HasPrefix(l, "//") {
			continue
		}
		if idx := strings.Index(l, " // "); idx >= 0 {
			l = strings.TrimSpace(l[:idx])
		}
		first := strings.SplitN(l, " ", 2)[0]
		if clauseKW[first] || len(stmts) == 0 {
			stmts = append(stmts, stmt{l, i + 1})
		} else {
			stmts[len(stmts)-1].text += " " + l
		}
	}
	var cur *Contract
	for _, s := range stmts {
		where := fmt.Sprintf("%s:%d", filepath.Base(filepath.Dir(path))+"/"+filepath.Base(path), s.line)
		fail := func(e error) error { return fmt.Errorf("%s: %v", where, e) }
		parts := strings.SplitN(s.text, " ", 2)
		kw := parts[0]
		rest := ""
		if len(parts) > 1 {
			rest = strings.TrimSpace(parts[1])
		}
		mkClause := func(src string) (*Clause, error) {
			props, label, r := parseTags(src)
			e, err := ParseExpr(r)
			if err != nil {
				return nil, err
			}
			return &Clause{Props: props, Label: label, E: e, Src: r, Where: where}, nil
		}
		switch kw {
		case "spec":
			// spec func name(a int, b int) int = expr
			r := strings.TrimPrefix(rest, "func ")
			eq := strings.Index(r, "=")
			for eq >= 0 && eq+1 < len(r) && (r[eq+1] == '=' || (eq > 0 && (r[eq-1] == '=' || r[eq-1] == '!' || r[eq-1] == '<' || r[eq-1] == '>'))) {
				n := strings.Index(r[eq+2:], "=")
				if n < 0 {
					eq = -1
					break
				}
				eq = eq + 2 + n
			}
			if eq < 0 {
				return fail(fmt.Errorf("spec func needs '= expr'"))
			}
			head, body := strings.TrimSpace(r[:eq]), strings.TrimSpace(r[eq+1:])
			op := strings.Index(head, "(")
			cp := strings.Index(head, ")")
			if op < 0 || cp < op {
				return fail(fmt.Errorf("bad spec func head %q", head))
			}
			name := strings.TrimSpace(head[:op])
			var params []string
			for _, p := range strings.Split(head[op+1:cp], ",") {
				p = strings.TrimSpace(p)
				if p == "" {
					continue
				}
				params = append(params, strings.Fields(p)[0])
			}
			e, err := ParseExpr(body)
			if err != nil {
				return fail(err)
			}
			cs.Specs[name] = &SpecFunc{Name: name, Params: params, Body: e, Src: body, Pkg: pkgPath}
			cur = nil
		case "ghost":
			f := strings.Fields(rest)
			if len(f) >= 2 && f[0] == "func" {
				r := strings.TrimPrefix(rest, "func ")
				op := strings.Index(r, "(")
				cp := strings.LastIndex(r, ")")
				name := strings.TrimSpace(r[:op])
				n := 0
				if strings.TrimSpace(r[op+1:cp]) != "" {
					n = len(strings.Split(r[op+1:cp], ","))
				}
				ret := "Int"
				if strings.Contains(r[cp+1:], "bool") {
					ret = "Bool"
				}
				cs.GFuncs[name] = &GhostFunc{Name: name, Arity: n, Ret: ret}
			} else if len(f) >= 3 && f[0] == "var" {
				sort := "Int"
				switch strings.Join(f[2:], " ") {
				case "bool":
					sort = "Bool"
				case "int":
					sort = "Int"
				case "map[int]bool":
					sort = "(Array Int Bool)"
				case "map[int]int":
					sort = "(Array Int Int)"
				case "map[int]map[int]bool":
					sort = "(Array Int (Array Int Bool))"
				case "map[int]map[int]int":
					sort = "(Array Int (Array Int Int))"
				default:
					if !strings.HasPrefix(f[2], "*") {
						return fail(fmt.Errorf("unknown ghost var type %q", strings.Join(f[2:], " ")))
					}
				}
				gv := &GhostVar{Name: f[1], Sort: sort}
				if strings.HasPrefix(f[2], "*") {
					gv.TypeName = f[2]
				}
				cs.GVars[f[1]] = gv
			} else {
				return fail(fmt.Errorf("bad ghost declaration"))
			}
			cur = nil
		case "signal":
			cs.Signals[rest] = true
			cur = nil
		case "guarded":
			// guarded pkg.Type.field by pkg.Type.lockfield
			f := strings.Fields(rest)
			if len(f) != 3 || f[1] != "by" {
				return fail(fmt.Errorf("guarded <pkg.Type.field> by <pkg.Type.lockfield>"))
			}
			if cs.Guarded == nil {
				cs.Guarded = map[string]string{}
			}
			cs.Guarded[f[0]] = f[2]
			cur = nil
		case "chaninv":
			// chaninv pkg.Type.field: expr over v   (checked at every send, assumed at every receive)
			i := strings.Index(rest, ":")
			if i < 0 {
				return fail(fmt.Errorf("chaninv <pkg.Type.field>: <expr over v>"))
			}
			e, err := ParseExpr(strings.TrimSpace(rest[i+1:]))
			if err != nil {
				return fail(err)
			}
			if cs.ChanInvs == nil {
				cs.ChanInvs = map[string]*Clause{}
			}
			cs.ChanInvs[strings.TrimSpace(rest[:i])] = &Clause{E: e, Src: strings.TrimSpace(rest[i+1:]), Where: where, Label: "chaninv"}
			cur = nil
		case "axiom", "lemma":
			props, label, r := parseTags(rest)
			var vars []string
			name := label
			if kw == "lemma" || strings.HasPrefix(r, "(") {
				// optional (a, b) variable list then ':'
				if strings.HasPrefix(r, "(") {
					cp := strings.Index(r, ")")
					for _, v := range strings.Split(r[1:cp], ",") {
						v = strings.TrimSpace(v)
						if v != "" {
							vars = append(vars, strings.Fields(v)[0])
						}
					}
					r = strings.TrimSpace(r[cp+1:])
					r = strings.TrimPrefix(r, ":")
				}
			}
			e, err := ParseExpr(r)
			if err != nil {
				return fail(err)
			}
			cl := Clause{Props: props, Label: label, E: e, Src: r, Where: where}
			if kw == "axiom" {
				cs.Axioms = append(cs.Axioms, &Axiom{Clause: cl, Vars: vars})
			} else {
				cs.Lemmas = append(cs.Lemmas, &Lemma{Clause: cl, Name: name, Vars: vars})
			}
			cur = nil
		case "func":
			key := rest
			if sp := strings.Index(key, " "); sp >= 0 && !strings.HasPrefix(key, "field ") && !strings.HasPrefix(key, "invoke ") {
				key = key[:sp]
			}
			key = qualifyKey(key, pkgPath)
			if c, ok := cs.Funcs[key]; ok {
				cur = c
			} else {
				cur = &Contract{Key: key, File: path, LoopInv: map[int][]*Clause{}, LoopDec: map[int]*Clause{}, Props: map[string]bool{}, External: external}
				if external {
					cur.Trusted = true
				}
				cs.Funcs[key] = cur
				cs.Order = append(cs.Order, key)
			}
		default:
			if cur == nil {
				return fail(fmt.Errorf("clause %q outside a func block", kw))
			}
			switch kw {
			case "requires":
				c, err := mkClause(rest)
				if err != nil {
					return fail(err)
				}
				cur.Requires = append(cur.Requires, c)
			case "ensures":
				c, err := mkClause(rest)
				if err != nil {
					return fail(err)
				}
				cur.Ensures = append(cur.Ensures, c)
				for _, p := range c.Props {
					cur.Props[p] = true
				}
			case "cover":
				c, err := mkClause(rest)
				if err != nil {
					return fail(err)
				}
				cur.Covers = append(cur.Covers, c)
			case "assigns":
				cur.HasFrame = true
				if rest == "nothing" {
					break
				}
				for _, a := range splitTopComma(rest) {
					e, err := ParseExpr(a)
					if err != nil {
						return fail(err)
					}
					cur.Assigns = append(cur.Assigns, e)
					cur.AssignSrc = append(cur.AssignSrc, a)
				}
			case "pure":
				cur.HasFrame = true
				cur.Pure = true
			case "trusted":
				cur.Trusted = true
			case "nobody":
				cur.NoBody = true
			case "lockonly":
				cur.LockOnly = true
			case "inline-at-calls":
				cur.Inline = true
			case "assume-callee-pre":
				cur.AssumePre = true
			case "entry-held":
				e, err := ParseExpr(rest)
				if err != nil {
					return fail(err)
				}
				cur.EntryHeld = append(cur.EntryHeld, e)
			case "blocking":
				cur.Blocking = true
			case "iterated":
				cur.Iterated = true
			case "ghost-set":
				// ghost-set g[idx] = val when cond   |   ghost-set g = val when cond
				gs := &GhostSet{Src: rest}
				w := strings.Index(rest, " when ")
				lhsrhs := rest
				if w >= 0 {
					lhsrhs = rest[:w]
					c, err := ParseExpr(rest[w+6:])
					if err != nil {
						return fail(err)
					}
					gs.Cond = c
				}
				eq := strings.Index(lhsrhs, " = ")
				if eq < 0 {
					return fail(fmt.Errorf("ghost-set g[idx] = val [when cond]"))
				}
				lhs, rhs := strings.TrimSpace(lhsrhs[:eq]), strings.TrimSpace(lhsrhs[eq+3:])
				if br := strings.Index(lhs, "["); br >= 0 {
					gs.Var = lhs[:br]
					ie, err := ParseExpr(lhs[br+1 : len(lhs)-1])
					if err != nil {
						return fail(err)
					}
					gs.Idx = ie
				} else {
					gs.Var = lhs
				}
				ve, err := ParseExpr(rhs)
				if err != nil {
					return fail(err)
				}
				gs.Val = ve
				cur.GhostSets = append(cur.GhostSets, gs)
			case "iterates":
				cur.Iterates = strings.TrimSpace(rest)
				cur.HasFrame = true
			case "opaque":
				if cur.Opaque == nil {
					cur.Opaque = map[string]bool{}
				}
				for _, a := range strings.Split(rest, ",") {
					cur.Opaque[strings.TrimSpace(a)] = true
				}
			case "fresh":
				for _, a := range strings.Split(rest, ",") {
					cur.Fresh = append(cur.Fresh, strings.TrimSpace(a))
				}
			case "loop":
				f := strings.SplitN(rest, " ", 3)
				if len(f) < 3 {
					return fail(fmt.Errorf("loop <n> invariant|decreases <expr>"))
				}
				var n int
				if _, err := fmt.Sscanf(f[0], "%d", &n); err != nil {
					return fail(err)
				}
				c, err := mkClause(f[2])
				if err != nil {
					return fail(err)
				}
				switch f[1] {
				case "invariant":
					cur.LoopInv[n] = append(cur.LoopInv[n], c)
				case "decreases":
					cur.LoopDec[n] = c
				default:
					return fail(fmt.Errorf("loop clause %q", f[1]))
				}
				for _, p := range c.Props {
					cur.Props[p] = true
				}
			case "at-call":
				// at-call <callee> assert [tags] expr
				idx := strings.Index(rest, " assert ")
				if idx < 0 {
					return fail(fmt.Errorf("at-call <callee> assert <expr>"))
				}
				callee := qualifyKey(strings.TrimSpace(rest[:idx]), pkgPath)
				c, err := mkClause(strings.TrimSpace(rest[idx+8:]))
				if err != nil {
					return fail(err)
				}
				cur.AtCalls = append(cur.AtCalls, &AtCall{Callee: callee, Clause: *c})
				for _, p := range c.Props {
					cur.Props[p] = true
				}
			case "at-return":
				// at-return assert [tags] expr : checked at every return, with the function's locals in scope (a local
				// that is not in scope at a return is arbitrary there, so guard the clause with the results)
				r := strings.TrimSpace(rest)
				r = strings.TrimPrefix(r, "assert ")
				c, err := mkClause(strings.TrimSpace(r))
				if err != nil {
					return fail(err)
				}
				cur.AtReturns = append(cur.AtReturns, c)
				for _, p := range c.Props {
					cur.Props[p] = true
				}
			case "at-send":
				// at-send <pkg.Type.chanfield> assert [tags] expr over v (the value sent) and the locals in scope
				idx := strings.Index(rest, " assert ")
				if idx < 0 {
					return fail(fmt.Errorf("at-send <pkg.Type.field> assert <expr>"))
				}
				c, err := mkClause(strings.TrimSpace(rest[idx+8:]))
				if err != nil {
					return fail(err)
				}
				cur.AtSends = append(cur.AtSends, &AtCall{Callee: strings.TrimSpace(rest[:idx]), Clause: *c})
				for _, p := range c.Props {
					cur.Props[p] = true
				}
			default:
				return fail(fmt.Errorf("unknown clause %q", kw))
			}
		}
	}
	return nil
}

func splitTopComma(s string) []string {
	var out []string
	d := 0
	st := 0
	for i, c := range s {
		switch c {
		case '(', '[':
			d++
		case ')', ']':
			d--
		case ',':
			if d == 0 {
				out = append(out, strings.TrimSpace(s[st:i]))
				st = i + 1
			}
		}
	}
	out = append(out, strings.TrimSpace(s[st:]))
	return out
}

// qualifyKey turns "Foo", "(*T).M", "(T).M", "Foo$1" into ssa.Function.String() form for package pkgPath.
// Keys containing a '/' or starting with "invoke "/"field " or with a known std package are kept.
func qualifyKey(key, pkgPath string) string {
	if pkgPath == "" || strings.HasPrefix(key, "invoke ") || strings.HasPrefix(key, "field ") || strings.HasPrefix(key, "dynamic ") {
		return key
	}
	if strings.HasPrefix(key, "(") {
		cp := strings.Index(key, ")")
		recv := key[1:cp]
		star := ""
		if strings.HasPrefix(recv, "*") {
			star = "*"
			recv = recv[1:]
		}
		if strings.Contains(recv, ".") {
			return key
		}
		return "(" + star + pkgPath + "." + recv + ")" + key[cp+1:]
	}
	if strings.Contains(key, ".") {
		return key
	}
	return pkgPath + "." + key
}

func (cs *ContractSet) sortedKeys() []string {
	var ks []string
	for k := range cs.Funcs {
		ks = append(ks, k)
	}
	sort.Strings(ks)
	return ks
}
