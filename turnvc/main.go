package main

import (
	"encoding/json"
	"flag"
	"fmt"
	"go/types"
	"os"
	"os/exec"
	"path/filepath"
	"sort"
	"strconv"
	"strings"
	"sync"
	"time"

	"golang.org/x/tools/go/ssa"
)

func main() {
	if len(os.Args) < 2 {
		fmt.Fprintln(os.Stderr, "usage: turnvc check <PROP> [-tier quick|thorough] | verify <func>... | list")
		os.Exit(2)
	}
	cmd := os.Args[1]
	fs := flag.NewFlagSet(cmd, flag.ExitOnError)
	repo := fs.String("repo", "/repo", "repository root")
	verif := fs.String("verif", "/verif", "verif root")
	tier := fs.String("tier", "quick", "quick|thorough")
	overlay := fs.String("overlay", "", "JSON file mapping absolute paths to replacement files")
	verbose := fs.Bool("v", false, "verbose")
	noEvidence := fs.Bool("no-evidence", false, "do not write evidence/replay files")
	// flags may come after the positional arguments (check C10 -tier thorough): move them to the front
	var flagArgs, posArgs []string
	rest := os.Args[2:]
	for i := 0; i < len(rest); i++ {
		a := rest[i]
		if strings.HasPrefix(a, "-") && a != "-" {
			flagArgs = append(flagArgs, a)
			name := strings.TrimLeft(a, "-")
			if !strings.Contains(name, "=") && name != "v" && name != "no-evidence" && i+1 < len(rest) {
				i++
				flagArgs = append(flagArgs, rest[i])
			}
			continue
		}
		posArgs = append(posArgs, a)
	}
	fs.Parse(append(flagArgs, posArgs...))
	timeout := 20000
	if *tier == "thorough" {
		timeout = 60000
	}
	var ov map[string][]byte
	if *overlay != "" {
		data, err := os.ReadFile(*overlay)
		if err != nil {
			fatal(err)
		}
		var m map[string]string
		if err := json.Unmarshal(data, &m); err != nil {
			fatal(err)
		}
		ov = map[string][]byte{}
		for k, v := range m {
			d, err := os.ReadFile(v)
			if err != nil {
				fatal(err)
			}
			ov[k] = d
		}
	}
	t0 := time.Now()
	eng, err := NewEngine(*repo, filepath.Join(*verif, "specs"), timeout, ov)
	if err != nil {
		fmt.Println("ENGINE-ERROR: cannot load /repo:", err)
		os.Exit(2)
	}
	eng.LoadMs = float64(time.Since(t0).Milliseconds())
	switch cmd {
	case "list":
		for _, k := range eng.CS.sortedKeys() {
			c := eng.CS.Funcs[k]
			var ps []string
			for p := range c.Props {
				ps = append(ps, p)
			}
			sort.Strings(ps)
			fmt.Printf("%-90s %v ext=%v\n", shortFn(k), ps, c.External)
		}
	case "locksites":
		// every /repo function (tests excluded) that takes or releases a mutex directly, with its contract status
		var keys []string
		for k, fn := range eng.Funcs {
			if !inRepo(fn) || fn.Blocks == nil {
				continue
			}
			if pos := eng.Prog.Fset.Position(fn.Pos()); strings.HasSuffix(pos.Filename, "_test.go") || strings.Contains(pos.Filename, "/examples/") {
				continue
			}
			n := 0
			if eng.usesLocks(k) {
				n++
			}
			for _, b := range fn.Blocks {
				for _, ins := range b.Instrs {
					var cc *ssa.CallCommon
					switch x := ins.(type) {
					case *ssa.Call:
						cc = &x.Call
					case *ssa.Defer:
						cc = &x.Call
					}
					if cc == nil {
						continue
					}
					if f := cc.StaticCallee(); f != nil && (strings.HasPrefix(f.String(), "(*sync.Mutex).") || strings.HasPrefix(f.String(), "(*sync.RWMutex).")) {
						n++
					}
				}
			}
			if n > 0 {
				st := "NONE"
				if c := eng.CS.Funcs[k]; c != nil {
					st = "contract"
					if c.LockOnly {
						st = "lockonly"
					}
				}
				keys = append(keys, fmt.Sprintf("%-10s %s", st, k))
			}
		}
		sort.Strings(keys)
		for _, k := range keys {
			fmt.Println(k)
		}
	case "verify":
		var results []*FnResult
		for _, name := range fs.Args() {
			fn, con := eng.findFunc(name)
			if fn == nil {
				fmt.Println("no such function:", name)
				continue
			}
			r := eng.VerifyFunction(fn, con)
			results = append(results, r)
			printResult(r, true)
		}
		_ = results
	case "ssa":
		for _, name := range fs.Args() {
			fn, _ := eng.findFunc(name)
			if fn != nil {
				fn.WriteTo(os.Stdout)
			}
		}
	case "baseline":
		os.Exit(eng.WriteBaseline(*verif))
	case "check":
		if fs.NArg() < 1 {
			fatal(fmt.Errorf("check needs a property id"))
		}
		os.Exit(eng.CheckProperty(fs.Arg(0), *tier, *verif, *verbose, !*noEvidence, t0))
	default:
		fatal(fmt.Errorf("unknown command %s", cmd))
	}
}

func fatal(err error) {
	fmt.Fprintln(os.Stderr, "turnvc:", err)
	os.Exit(2)
}

func (e *Engine) findFunc(name string) (*ssa.Function, *Contract) {
	var cands []string
	for k := range e.Funcs {
		if k == name || shortFn(k) == name || strings.HasSuffix(k, "."+name) || strings.HasSuffix(k, ")."+name) {
			cands = append(cands, k)
		}
	}
	sort.Slice(cands, func(i, j int) bool {
		ri, rj := strings.HasPrefix(cands[i], modulePath) || strings.Contains(cands[i], "("+modulePath) || strings.Contains(cands[i], "(*"+modulePath), strings.HasPrefix(cands[j], modulePath) || strings.Contains(cands[j], "("+modulePath) || strings.Contains(cands[j], "(*"+modulePath)
		if ri != rj {
			return ri
		}
		return len(cands[i]) < len(cands[j])
	})
	if len(cands) == 0 {
		return nil, nil
	}
	return e.Funcs[cands[0]], e.CS.Funcs[cands[0]]
}

func printResult(r *FnResult, all bool) {
	fmt.Printf("== %s: %d paths, %d loops, %.0f ms\n", r.Func, r.Paths, r.Loops, r.WallMs)
	for _, o := range r.Obligations {
		if all || o.Status != "discharged" {
			fmt.Printf("   %-11s %-90s x%d %.0fms\n", o.Status, o.Name, o.Instances, o.Ms)
			if o.Status != "discharged" {
				fmt.Printf("       path %v %s\n", o.FailPath, o.Raw)
				if o.Inputs != nil {
					b, _ := json.Marshal(o.Inputs)
					s := string(b)
					if len(s) > 600 {
						s = s[:600] + "..."
					}
					fmt.Printf("       inputs %s\n", s)
				}
			}
		}
	}
	for _, u := range r.Unsupported {
		fmt.Println("   UNSUPPORTED:", u)
	}
	if all {
		for _, n := range r.Notes {
			fmt.Println("   note:", n)
		}
	}
}

// ---------- property checks ----------

type KnownFinding struct {
	Kind, Prop, Obligation, Text string
}

func loadKnownFindings(path string) []KnownFinding {
	data, err := os.ReadFile(path)
	if err != nil {
		return nil
	}
	var out []KnownFinding
	for _, l := range strings.Split(string(data), "\n") {
		l = strings.TrimSpace(l)
		if l == "" || strings.HasPrefix(l, "#") {
			continue
		}
		var kf KnownFinding
		switch {
		case strings.HasPrefix(l, "finding:"):
			kf.Kind = "finding"
			l = strings.TrimSpace(strings.TrimPrefix(l, "finding:"))
		case strings.HasPrefix(l, "fixed:"):
			kf.Kind = "fixed"
			l = strings.TrimSpace(strings.TrimPrefix(l, "fixed:"))
		default:
			continue
		}
		for _, f := range strings.Fields(l) {
			if strings.HasPrefix(f, "property=") {
				kf.Prop = strings.TrimPrefix(f, "property=")
			} else if strings.HasPrefix(f, "obligation=") {
				kf.Obligation = strings.TrimPrefix(f, "obligation=")
			}
		}
		if i := strings.Index(l, " :: "); i >= 0 {
			kf.Text = l[i+4:]
		} else {
			kf.Text = l
		}
		out = append(out, kf)
	}
	return out
}

var protoCodecFuncs = "proto."

func oblRelevant(o *Obligation, prop string, fnHasProp bool, fnName string) bool {
	for _, p := range o.Props {
		if p == prop {
			return true
		}
	}
	if len(o.Props) > 0 {
		return false
	}
	switch o.Kind {
	case "safety":
		if prop == "C09" {
			return true
		}
		if prop == "C11" && strings.HasPrefix(fnName, "(*proto.") || prop == "C11" && strings.HasPrefix(fnName, "(proto.") || prop == "C11" && strings.HasPrefix(fnName, "proto.") {
			return fnHasProp
		}
		return false
	case "lock":
		return prop == "C18"
	default:
		return fnHasProp
	}
}

func (e *Engine) functionsFor(prop string) []string {
	var out []string
	for _, k := range e.CS.sortedKeys() {
		c := e.CS.Funcs[k]
		if c.External || c.NoBody {
			continue
		}
		if c.Props[prop] || (prop == "C09" && !c.Trusted) || (prop == "C18" && !c.Trusted && e.usesLocks(k)) {
			out = append(out, k)
		}
	}
	return out
}

func (e *Engine) usesLocks(key string) bool {
	fn := e.Funcs[key]
	if fn == nil {
		return false
	}
	for _, b := range fn.Blocks {
		for _, ins := range b.Instrs {
			// an access to a field under a `guarded` declaration is part of the lock discipline as well
			if fa, ok := ins.(*ssa.FieldAddr); ok && len(e.CS.Guarded) > 0 {
				if pt, ok := fa.X.Type().Underlying().(*types.Pointer); ok {
					if stt, ok := pt.Elem().Underlying().(*types.Struct); ok {
						rt, _, p := canonField(pt.Elem(), fmt.Sprint(fa.Field))
						_ = stt
						if _, g := e.CS.Guarded[typeKey(rt)+"."+fieldNames(rt, p)]; g {
							return true
						}
					}
				}
			}
			var cc *ssa.CallCommon
			switch x := ins.(type) {
			case *ssa.Call:
				cc = &x.Call
			case *ssa.Defer:
				cc = &x.Call
			}
			if cc != nil {
				if f := cc.StaticCallee(); f != nil && (strings.HasPrefix(f.String(), "(*sync.RWMutex)") || strings.HasPrefix(f.String(), "(*sync.Mutex)")) {
					return true
				}
			}
		}
	}
	return false
}

func (e *Engine) CheckProperty(prop, tier, verifDir string, verbose, writeEvidence bool, t0 time.Time) int {
	keys := e.functionsFor(prop)
	seed := 0
	if s := os.Getenv("VERIF_SEED"); s != "" {
		seed, _ = strconv.Atoi(s)
	}
	known := loadKnownFindings(filepath.Join(verifDir, "known_findings.txt"))
	baseline := loadBaseline(filepath.Join(verifDir, "baseline", "obligations.json"))
	e.Baseline = baseline
	results := make([]*FnResult, len(keys))
	var wg sync.WaitGroup
	sem := make(chan struct{}, 12)
	var missing []string
	for i, k := range keys {
		fn := e.Funcs[k]
		if fn == nil {
			missing = append(missing, k)
			continue
		}
		wg.Add(1)
		go func(i int, fn *ssa.Function, con *Contract) {
			defer wg.Done()
			sem <- struct{}{}
			defer func() { <-sem }()
			results[i] = e.VerifyFunction(fn, con)
		}(i, fn, e.CS.Funcs[k])
	}
	// supporting functions: the proof of a caller only uses its callees' contracts, so every /repo function whose
	// contract was used (transitively) is verified as well; its untagged clauses (frames, structural facts) count for
	// this property, its clauses tagged for other properties only do not.
	supporting := map[string]bool{}
	var supportKeys []string
	var supportRes []*FnResult
	if prop != "C09" && prop != "C18" {
		short2key := map[string]string{}
		for _, k := range e.CS.sortedKeys() {
			short2key[shortFn(k)] = k
		}
		inKeys := map[string]bool{}
		for _, k := range keys {
			inKeys[k] = true
		}
		// static closure over the call graph (static callees, closures created, inlined contract-less callees)
		var add []string
		visited := map[string]bool{}
		var visit func(fn *ssa.Function)
		visit = func(fn *ssa.Function) {
			if fn == nil || visited[fn.String()] || fn.Blocks == nil {
				return
			}
			visited[fn.String()] = true
			for _, b := range fn.Blocks {
				for _, ins := range b.Instrs {
					var callee *ssa.Function
					switch x := ins.(type) {
					case *ssa.Call:
						callee = x.Call.StaticCallee()
					case *ssa.Defer:
						callee = x.Call.StaticCallee()
					case *ssa.Go:
						callee = x.Call.StaticCallee()
					case *ssa.MakeClosure:
						callee, _ = x.Fn.(*ssa.Function)
					}
					var cands []*ssa.Function
					if callee != nil {
						cands = append(cands, callee)
					}
					for _, op := range ins.Operands(nil) {
						if f, ok := (*op).(*ssa.Function); ok && f != callee {
							cands = append(cands, f) // function used as a value (handler tables, callbacks)
						}
					}
					for _, callee := range cands {
						if callee == nil || !inRepo(callee) {
							continue
						}
						k := callee.String()
						c := e.CS.Funcs[k]
						if c == nil || c.LockOnly {
							visit(callee) // contract-less: inlined or unknown; look through it
							continue
						}
						if c.Inline {
							visit(callee) // verified on its own AND inlined by its callers: look through it as well
						}
						if c.External || c.NoBody || c.Trusted || inKeys[k] {
							continue
						}
						inKeys[k] = true
						add = append(add, k)
						visit(callee)
					}
				}
			}
		}
		for _, k := range keys {
			visit(e.Funcs[k])
		}
		_ = short2key
		sort.Strings(add)
		more := make([]*FnResult, len(add))
		for i, k := range add {
			supporting[k] = true
			wg.Add(1)
			go func(i int, fn *ssa.Function, con *Contract) {
				defer wg.Done()
				sem <- struct{}{}
				defer func() { <-sem }()
				more[i] = e.VerifyFunction(fn, con)
			}(i, e.Funcs[k], e.CS.Funcs[k])
		}
		supportKeys, supportRes = add, more
	}
	wg.Wait()
	keys = append(keys, supportKeys...)
	results = append(results, supportRes...)
	// lemmas
	lemmaRes := e.checkLemmas(prop)
	if lemmaRes != nil {
		results = append(results, lemmaRes)
		keys = append(keys, "lemmas")
	}

	type viol struct {
		o  *Obligation
		fn *FnResult
	}
	var viols []viol
	var knownHit []string
	var undecided []string
	var unsupported []string
	total, discharged, knownN := 0, 0, 0
	var solverMs float64
	backends := map[string]int{}
	var fnSummaries []map[string]any
	var samples []any
	trusted := map[string]bool{}
	for i, r := range results {
		if r == nil {
			continue
		}
		hasProp := true
		if c := e.CS.Funcs[keys[i]]; c != nil {
			hasProp = c.Props[prop] || supporting[keys[i]]
		}
		nrel := 0
		for _, o := range r.Obligations {
			if !oblRelevant(o, prop, hasProp, r.Func) {
				continue
			}
			nrel++
			total++
			solverMs += o.Ms
			for b, n := range o.Backends {
				backends[b] += n
			}
			switch o.Status {
			case "discharged":
				discharged++
				if len(samples) < 6 && o.Kind != "safety" {
					samples = append(samples, map[string]any{"obligation": o.Name, "clause": o.Src, "instances": o.Instances, "status": o.Status})
				}
			case "failed":
				isKnown := false
				for _, kf := range known {
					if kf.Kind == "finding" && kf.Prop == prop && kf.Obligation == strings.ReplaceAll(o.Name, " ", "_") {
						isKnown = true
						knownHit = append(knownHit, fmt.Sprintf("KNOWN-FINDING: property=%s %s", prop, kf.Text))
					}
				}
				if isKnown {
					knownN++
					total--
				} else {
					viols = append(viols, viol{o, r})
				}
			default:
				if baseline[o.Name] {
					// discharged on the unchanged tree (committed baseline), no longer accepted by the verifier
					o.Raw = "discharged on the unchanged tree (baseline), not accepted now: " + o.Raw
					viols = append(viols, viol{o, r})
				} else {
					undecided = append(undecided, o.Name+": "+o.Raw)
				}
			}
		}
		// a call (or send) that a clause of this property is attached to, present and discharged on the unchanged tree
		// (baseline), has disappeared from the body: the guarded action no longer happens, or happens elsewhere unchecked
		seen := map[string]bool{}
		for _, o := range r.Obligations {
			seen[o.Name] = true
		}
		var gone []string
		for bn := range baseline {
			if (strings.HasPrefix(bn, r.Func+"/at-call[") || strings.HasPrefix(bn, r.Func+"/at-send[")) && !seen[bn] {
				if i := strings.LastIndex(bn, "]["); i >= 0 && strings.Contains(bn[i:], prop) {
					gone = append(gone, bn)
				}
			}
		}
		sort.Strings(gone)
		for _, bn := range gone {
			total++
			o := &Obligation{Name: bn, Kind: "at-call", Func: r.Func, Status: "undecided", Backends: map[string]int{},
				Raw: "discharged on the unchanged tree (baseline); the call this clause is attached to no longer occurs in the body, so the obligation is not generated any more"}
			viols = append(viols, viol{o, r})
		}
		for _, u := range r.Unsupported {
			if len(gone) > 0 && strings.Contains(u, "matches no call in the body") {
				continue
			}
			unsupported = append(unsupported, r.Func+": "+u)
		}
		for _, n := range r.Notes {
			if strings.HasPrefix(n, "contract used:") && strings.Contains(n, "assumed, external") || strings.HasPrefix(n, "assumed pure") || strings.HasPrefix(n, "unknown code") || strings.HasPrefix(n, "axiom assumed") || strings.HasPrefix(n, "bit operation") || strings.HasPrefix(n, "NOT CHECKED") {
				trusted[n] = true
			}
		}
		role := "clauses of this property"
		if supporting[keys[i]] {
			role = "supporting: its contract is used by a function above; untagged clauses counted"
		}
		fnSummaries = append(fnSummaries, map[string]any{"func": r.Func, "role": role, "file": r.File, "paths": r.Paths, "loops": r.Loops, "loops_with_invariant": r.LoopsWithInv,
			"obligations_for_property": nrel, "wall_ms": r.WallMs, "notes": r.Notes, "unsupported": r.Unsupported})
	}
	for _, m := range missing {
		unsupported = append(unsupported, "contract for a function that does not exist in the working tree: "+shortFn(m))
	}
	exit := 0
	var lines []string
	for _, l := range knownHit {
		lines = append(lines, l)
	}
	os.MkdirAll(filepath.Join(verifDir, "replays"), 0o755)
	for _, v := range viols {
		rp := filepath.Join(verifDir, "replays", prop+"-"+sanitize(v.o.Name)+".json")
		suffix := " no-failing-input-found"
		rep := map[string]any{"property": prop, "obligation": v.o.Name, "function": v.fn.Func, "file": v.fn.File, "clause": v.o.Src, "where": v.o.Where,
			"path_blocks": v.o.FailPath, "verifier_output": v.o.Raw, "model_inputs": v.o.Inputs, "reproduced_on_real_code": false}
		if writeEvidence {
			if ok, detail := e.tryReplay(v.fn, v.o, rep, verifDir); ok {
				suffix = ""
				rep["reproduced_on_real_code"] = true
				rep["replay_detail"] = detail
			} else if detail != "" {
				rep["replay_detail"] = detail
			}
			b, _ := json.MarshalIndent(rep, "", " ")
			os.WriteFile(rp, b, 0o644)
		}
		lines = append(lines, fmt.Sprintf("VIOLATION property=%s replay=%s%s", prop, rp, suffix))
		lines = append(lines, fmt.Sprintf("  failed obligation: %s  (%s)", v.o.Name, v.o.Src))
		exit = 1
	}
	if exit == 0 && (len(undecided) > 0 || len(unsupported) > 0 || total == 0) {
		exit = 2
		for _, u := range undecided {
			lines = append(lines, "UNDECIDED property="+prop+" obligation="+u)
		}
		for _, u := range unsupported {
			lines = append(lines, "UNSUPPORTED property="+prop+" "+u)
		}
		if total == 0 {
			lines = append(lines, "UNDECIDED property="+prop+" no obligations generated (vacuous check)")
		}
	}
	// thorough tier: the check must also be able to FAIL. Every stored seeded change for this property
	// (/verif/seeded/*/patch.diff: a change that breaks the property while compiling and passing the test suite) is
	// applied to a scratch copy of the files it touches and handed to the same check through a packages overlay
	// (/repo itself is not modified); each must be reported as a violation. A canary that is not detected is a defect
	// of the check (exit 2), never a violation of the property.
	var canaries []map[string]any
	if tier == "thorough" && exit == 0 && writeEvidence {
		cs, missed := runCanaries(prop, verifDir, e.RepoDir)
		canaries = cs
		for _, m := range missed {
			lines = append(lines, "UNDECIDED property="+prop+" selftest: seeded change "+m+" is not detected by this check")
			exit = 2
		}
	}
	// thorough tier: bounded stand-ins for trusted functions (labelled bounded, never counted as proved)
	var bounded []map[string]any
	if tier == "thorough" && writeEvidence {
		bs, bviol := runBounded(prop, verifDir, e.RepoDir)
		bounded = bs
		for _, l := range bviol {
			lines = append(lines, l)
			exit = 1
		}
	}
	wall := time.Since(t0).Seconds()
	if writeEvidence {
		var tb []string
		for n := range trusted {
			tb = append(tb, n)
		}
		sort.Strings(tb)
		tb = append([]string{"golang.org/x/tools go/ssa v0.29.0 (front end) and the turnvc VC generator", "z3 5.1.0 (primary), z3 4.8.12 and cvc5 1.0.3 (fallback portfolio)"}, tb...)
		be := map[string]any{}
		for b, n := range backends {
			be[b] = n
		}
		if len(samples) == 0 {
			samples = append(samples, map[string]any{"note": "no non-safety obligation discharged"})
		}
		ev := map[string]any{
			"property_id": prop, "tier": tier, "seed": seed, "level": "proof",
			"coverage": map[string]any{
				"obligations": total, "discharged": discharged, "known_findings": knownN,
				"checker_cmd":  fmt.Sprintf("/verif/check %s %s", prop, tier),
				"trusted_base": tb, "functions_under_contract": fnSummaries, "backends": be, "solver_ms": solverMs,
				"samples": samples, "undecided": undecided, "unsupported": unsupported, "load_ms": e.LoadMs,
				"verified_text": "go/ssa of the working tree of /repo (tags: verif), rebuilt on this run; contracts from <pkg>/verif_contracts.go",
			},
			"assumptions": assumptionsFor(prop),
			"wall_s":      wall, "violations": len(viols),
		}
		if canaries != nil {
			ev["coverage"].(map[string]any)["canaries"] = canaries
		}
		ev["coverage"].(map[string]any)["assumption_scan"] = e.assumptionScan(keys)
		if bounded != nil {
			ev["coverage"].(map[string]any)["bounded_stand_ins"] = bounded
		}
		os.MkdirAll(filepath.Join(verifDir, "evidence"), 0o755)
		b, _ := json.MarshalIndent(ev, "", " ")
		os.WriteFile(filepath.Join(verifDir, "evidence", prop+".json"), b, 0o644)
	}
	if verbose {
		for _, r := range results {
			if r != nil {
				printResult(r, false)
			}
		}
	}
	for _, l := range lines {
		fmt.Println(l)
	}
	fmt.Printf("%s %s: %d functions, %d obligations, %d discharged, %d known findings, %d violations, %d undecided, %d unsupported; solver %.1fs, wall %.1fs\n",
		prop, tier, len(keys), total, discharged, knownN, len(viols), len(undecided), len(unsupported), solverMs/1000, wall)
	return exit
}

func assumptionsFor(prop string) []string {
	return []string{
		"A1 each function body executes sequentially; a request handler is atomic w.r.t. timers and other handlers",
		"A2 the Go runtime fires timers at now+dur, channels are FIFO, defer runs",
		"A3 contracts of code outside /repo (specs/*.spec, engine models of sync, errors, fmt.Errorf, encoding/binary, time, atomic) are assumed, not proved",
		"A4 hashes are ideal (uninterpreted); hmac.Equal is equality",
		"A5 user callbacks return with locks balanced; they may re-enter the library",
		"A6 package-level sentinel errors are never reassigned",
		"A9 go/ssa and the engine's SSA semantics are right (guarded by replay and the selftest corpus)",
		"A10 slice capacities are at most 2^48 (Go maxAlloc); integers use exact wrap-around semantics, never mathematical ones",
		"A13 errors returned by functions outside the module, or through methods of interfaces declared outside the module, are not the module's own (unexported) sentinel errors",
		"A11 interface values holding non-pointer values are compared by box identity; typed-nil pointers in interfaces are not modelled",
	}
}

func (e *Engine) tryReplay(fr *FnResult, o *Obligation, rep map[string]any, verifDir string) (bool, string) {
	return replayObligation(e, fr, o, rep, verifDir)
}

func loadBaseline(path string) map[string]bool {
	out := map[string]bool{}
	data, err := os.ReadFile(path)
	if err != nil {
		return out
	}
	var names []string
	if json.Unmarshal(data, &names) == nil {
		for _, n := range names {
			out[n] = true
		}
	}
	return out
}

// WriteBaseline verifies every function under contract and records the names of all discharged obligations.
func (e *Engine) WriteBaseline(verifDir string) int {
	var keys []string
	for _, k := range e.CS.sortedKeys() {
		c := e.CS.Funcs[k]
		if c.External || c.NoBody || c.Trusted {
			continue
		}
		if e.Funcs[k] != nil {
			keys = append(keys, k)
		}
	}
	results := make([]*FnResult, len(keys))
	var wg sync.WaitGroup
	sem := make(chan struct{}, 12)
	for i, k := range keys {
		wg.Add(1)
		go func(i int, k string) {
			defer wg.Done()
			sem <- struct{}{}
			defer func() { <-sem }()
			results[i] = e.VerifyFunction(e.Funcs[k], e.CS.Funcs[k])
		}(i, k)
	}
	wg.Wait()
	var names []string
	bad := 0
	for _, r := range results {
		for _, o := range r.Obligations {
			if o.Status == "discharged" {
				names = append(names, o.Name)
			} else {
				bad++
				fmt.Printf("not discharged: %s (%s)\n", o.Name, o.Status)
			}
		}
	}
	props := map[string]bool{}
	for _, c := range e.CS.Funcs {
		for p := range c.Props {
			props[p] = true
		}
	}
	for p := range props {
		if lr := e.checkLemmas(p); lr != nil {
			for _, o := range lr.Obligations {
				if o.Status == "discharged" {
					names = append(names, o.Name)
				}
			}
		}
	}
	sort.Strings(names)
	var uniq []string
	for i, n := range names {
		if i == 0 || n != names[i-1] {
			uniq = append(uniq, n)
		}
	}
	if bad > 0 && os.Getenv("TURNVC_BASELINE_FORCE") == "" {
		// never silently shrink the baseline: an obligation that stopped discharging is either a regression of the
		// engine/contracts or a change of the code, and must be looked at first
		fmt.Printf("baseline NOT written: %d obligations not discharged (set TURNVC_BASELINE_FORCE=1 to write anyway)\n", bad)
		return 1
	}
	os.MkdirAll(filepath.Join(verifDir, "baseline"), 0o755)
	b, _ := json.MarshalIndent(uniq, "", " ")
	os.WriteFile(filepath.Join(verifDir, "baseline", "obligations.json"), b, 0o644)
	fmt.Printf("baseline: %d functions, %d discharged obligations recorded, %d not discharged\n", len(keys), len(uniq), bad)
	if bad > 0 {
		return 1
	}
	return 0
}

// runCanaries applies each seeded change stored for prop to scratch copies of the files it touches and runs the quick
// check of prop on the result through an overlay. Returns one record per canary and the names of those not detected.
func runCanaries(prop, verifDir, repoDir string) ([]map[string]any, []string) {
	var out []map[string]any
	var missed []string
	dirs, _ := filepath.Glob(filepath.Join(verifDir, "seeded", "*"))
	sort.Strings(dirs)
	self, _ := os.Executable()
	for _, d := range dirs {
		data, err := os.ReadFile(filepath.Join(d, "meta.json"))
		if err != nil {
			continue
		}
		var meta struct {
			Property string `json:"property"`
		}
		json.Unmarshal(data, &meta)
		if meta.Property != prop {
			continue
		}
		name := filepath.Base(d)
		patch, err := os.ReadFile(filepath.Join(d, "patch.diff"))
		if err != nil {
			continue
		}
		tmp, err := os.MkdirTemp("", "turnvc-canary-")
		if err != nil {
			continue
		}
		rec := map[string]any{"seeded_change": name}
		func() {
			defer os.RemoveAll(tmp)
			ov := map[string]string{}
			for _, l := range strings.Split(string(patch), "\n") {
				if strings.HasPrefix(l, "+++ b/") {
					rel := strings.TrimSpace(strings.TrimPrefix(l, "+++ b/"))
					src, err := os.ReadFile(filepath.Join(repoDir, rel))
					if err != nil {
						continue
					}
					os.MkdirAll(filepath.Dir(filepath.Join(tmp, rel)), 0o755)
					os.WriteFile(filepath.Join(tmp, rel), src, 0o644)
					ov[filepath.Join(repoDir, rel)] = filepath.Join(tmp, rel)
				}
			}
			ap := exec.Command("git", "apply", filepath.Join(d, "patch.diff"))
			ap.Dir = tmp
			if o, err := ap.CombinedOutput(); err != nil {
				rec["status"] = "patch does not apply to the current tree (skipped): " + firstLines(string(o), 2)
				return
			}
			ovb, _ := json.Marshal(ov)
			ovf := filepath.Join(tmp, "overlay.json")
			os.WriteFile(ovf, ovb, 0o644)
			t1 := time.Now()
			c := exec.Command(self, "check", prop, "-tier", "quick", "-no-evidence", "-overlay", ovf, "-verif", verifDir)
			o, _ := c.CombinedOutput()
			rec["wall_s"] = time.Since(t1).Seconds()
			detected := false
			for _, l := range strings.Split(string(o), "\n") {
				if strings.HasPrefix(l, "VIOLATION property="+prop) {
					detected = true
				}
				if strings.HasPrefix(l, "  failed obligation:") && rec["obligation"] == nil {
					rec["obligation"] = strings.TrimSpace(strings.TrimPrefix(l, "  failed obligation:"))
				}
			}
			rec["detected"] = detected
			if !detected {
				rec["status"] = "NOT DETECTED: " + firstLines(string(o), 3)
				missed = append(missed, name)
			} else {
				rec["status"] = "detected"
			}
		}()
		out = append(out, rec)
	}
	return out, missed
}

// assumptionScan: mechanical scan of the contracts of the functions this run verified (and of every contract they use)
// for the constructs that are assumptions rather than proof.
func (e *Engine) assumptionScan(keys []string) map[string]any {
	var trustedFns, lockOnly, assumePre, blocking []string
	for _, k := range e.CS.sortedKeys() {
		c := e.CS.Funcs[k]
		if c.External {
			continue
		}
		switch {
		case c.Trusted:
			trustedFns = append(trustedFns, shortFn(k))
		case c.AssumePre:
			assumePre = append(assumePre, shortFn(k))
		}
		if c.Blocking {
			blocking = append(blocking, shortFn(k))
		}
		if c.LockOnly {
			lockOnly = append(lockOnly, shortFn(k))
		}
	}
	ext := 0
	for _, c := range e.CS.Funcs {
		if c.External {
			ext++
		}
	}
	var axioms []string
	for _, ax := range e.CS.Axioms {
		axioms = append(axioms, ax.Label)
	}
	sort.Strings(axioms)
	return map[string]any{
		"scope":                       "whole contract set loaded for this run (module-wide, not only this property)",
		"trusted_bodies_not_verified": trustedFns,
		"assume_callee_pre_bodies":    assumePre,
		"blocking_sends_not_checked":  blocking,
		"lockonly_entries":            len(lockOnly),
		"external_assumed_contracts":  ext,
		"axioms":                      axioms,
		"engine_models_assumed":       "sync, sync/atomic, errors, fmt.Errorf, encoding/binary, time, append/copy/maps/channels (turnvc/models.go)",
	}
}

// runBounded runs the bounded stand-ins stored under /verif/selftest/bounded/<prop>/ (a Go test injected into the
// package of the trusted functions with `go test -overlay`; nothing is written into /repo). A failing stand-in is a
// violation with the failing input in the replay file; a passing one is reported as "bounded", never as proved.
func runBounded(prop, verifDir, repoDir string) ([]map[string]any, []string) {
	dir := filepath.Join(verifDir, "selftest", "bounded", prop)
	data, err := os.ReadFile(filepath.Join(dir, "meta.json"))
	if err != nil {
		return nil, nil
	}
	var meta struct {
		Pkgdir, Test, File, Bound, Claim, Why string
		Functions                             []string
	}
	if json.Unmarshal(data, &meta) != nil {
		return nil, nil
	}
	tmp, err := os.MkdirTemp("", "turnvc-bounded-")
	if err != nil {
		return nil, nil
	}
	defer os.RemoveAll(tmp)
	ov := map[string]any{"Replace": map[string]string{filepath.Join(repoDir, meta.Pkgdir, meta.File): filepath.Join(dir, meta.File)}}
	ovb, _ := json.Marshal(ov)
	ovf := filepath.Join(tmp, "overlay.json")
	os.WriteFile(ovf, ovb, 0o644)
	outf := filepath.Join(tmp, "out.json")
	cmd := exec.Command("bash", "-c", fmt.Sprintf("cd %s && go test -overlay %s -vet=off -count=1 -timeout 300s -run '^%s$' .", filepath.Join(repoDir, meta.Pkgdir), ovf, meta.Test))
	cmd.Env = append(os.Environ(), "GOFLAGS=-mod=mod", "GOPROXY=off", "TURNVC_BOUNDED_OUT="+outf)
	t1 := time.Now()
	o, runErr := cmd.CombinedOutput()
	rec := map[string]any{"label": "bounded (NOT proved)", "functions": meta.Functions, "bound": meta.Bound, "claim": meta.Claim, "why": meta.Why, "wall_s": time.Since(t1).Seconds()}
	var res map[string]any
	if b, err := os.ReadFile(outf); err == nil {
		json.Unmarshal(b, &res)
		rec["cases"] = res["cases"]
	}
	var viol []string
	if runErr != nil {
		rec["status"] = "FAILED"
		rp := filepath.Join(verifDir, "replays", prop+"-bounded-"+meta.Test+".json")
		os.MkdirAll(filepath.Dir(rp), 0o755)
		rb, _ := json.MarshalIndent(map[string]any{"property": prop, "bounded_stand_in": meta.Test, "functions": meta.Functions, "failing_input": res["failing_input"], "go_test_output": firstLines(string(o), 12), "reproduced_on_real_code": true}, "", " ")
		os.WriteFile(rp, rb, 0o644)
		viol = append(viol, fmt.Sprintf("VIOLATION property=%s replay=%s", prop, rp), "  failed bounded stand-in: "+meta.Test+" ("+meta.Claim+")")
	} else {
		rec["status"] = "held on every case explored"
	}
	return []map[string]any{rec}, viol
}
