package main

// Calls: builtins, engine-modelled library functions, calls by contract, inlining of small
// contract-less /repo functions, unknown code.

import (
	"fmt"
	"go/types"
	"regexp"
	"strings"

	"golang.org/x/tools/go/ssa"
)

func (fx *FnCtx) calleeKey(cc *ssa.CallCommon, st *State) string {
	if cc.IsInvoke() {
		return "invoke " + types.TypeString(cc.Value.Type(), nil) + "." + cc.Method.Name()
	}
	if b, ok := cc.Value.(*ssa.Builtin); ok {
		return "builtin " + b.Name()
	}
	if f := cc.StaticCallee(); f != nil {
		return f.String()
	}
	if st != nil {
		v := st.val(cc.Value)
		if v.Clo != nil {
			return v.Clo.fn
		}
		if strings.HasPrefix(v.Org, "field ") {
			return v.Org
		}
	} else {
		// static approximation for loop analysis
		if u, ok := cc.Value.(*ssa.UnOp); ok {
			if fa, ok := u.X.(*ssa.FieldAddr); ok {
				if pt, ok := fa.X.Type().Underlying().(*types.Pointer); ok {
					if s, ok := pt.Elem().Underlying().(*types.Struct); ok {
						return "field " + typeKey(pt.Elem()) + "." + s.Field(fa.Field).Name()
					}
				}
			}
		}
	}
	return "dynamic " + types.TypeString(cc.Value.Type(), nil)
}

func (fx *FnCtx) doCall(st *State, fr *callFrame, site ssa.Instruction, cc *ssa.CallCommon, k func(*State, *Val)) bool {
	var args []*Val
	for _, a := range cc.Args {
		args = append(args, st.val(a))
	}
	var fnv *Val
	if _, isB := cc.Value.(*ssa.Builtin); !isB {
		fnv = st.val(cc.Value)
	}
	fx.doCallVals(st, fr, site, cc, fnv, args, k)
	return true
}

func resultType(cc *ssa.CallCommon) types.Type {
	sig := cc.Signature()
	switch sig.Results().Len() {
	case 0:
		return nil
	case 1:
		return sig.Results().At(0).Type()
	}
	return sig.Results()
}

func (fx *FnCtx) doCallVals(st *State, fr *callFrame, site ssa.Instruction, cc *ssa.CallCommon, fnv *Val, args []*Val, k func(*State, *Val)) {
	key := fx.calleeKey(cc, st)
	if fnv != nil && !cc.IsInvoke() && cc.StaticCallee() == nil {
		if fnv.Clo != nil {
			key = fnv.Clo.fn
		}
	}
	rt := resultType(cc)
	if strings.HasPrefix(key, "builtin ") {
		var ct types.Type
		if v, ok := site.(ssa.Value); ok {
			ct = v.Type()
		}
		k(st, fx.builtin(st, strings.TrimPrefix(key, "builtin "), cc, args, ct))
		return
	}
	// nil checks for dynamic dispatch
	if cc.IsInvoke() {
		fx.oblige(st, fx.oname("safety", "nil-deref"), "safety", nil, tNot(tEq(fnv.S, "0")))
	} else if cc.StaticCallee() == nil && fnv != nil && fnv.Clo == nil {
		fx.oblige(st, fx.oname("safety", "nil-func-call"), "safety", nil, tNot(tEq(fnv.S, "0")))
	}
	// resolve callee function (static or known closure)
	var callee *ssa.Function
	if f := cc.StaticCallee(); f != nil {
		callee = f
	} else if fnv != nil && fnv.Clo != nil {
		callee = fx.eng.Funcs[fnv.Clo.fn]
	}
	// caller-side at-call clauses apply to every call, whatever way the callee is then handled
	if fx.con != nil && len(fx.con.AtCalls) > 0 {
		for _, ac := range fx.con.AtCalls {
			if calleeMatches(ac.Callee, key) {
				fx.atCalls(st, key, fx.callEnv(st, st.snapshot(), callee, cc, fnv, args))
				break
			}
		}
	}
	if m := modelFor(key); m != nil {
		k(st, m.apply(fx, st, cc, fnv, args, rt))
		return
	}
	con := fx.eng.CS.Funcs[key]
	if con != nil && (con.LockOnly || con.Inline) {
		con = nil // a lock-sweep entry says nothing to callers: treat the callee as contract-less (inline / unknown code)
	}
	if con != nil {
		fx.applyContract(st, fr, site, key, con, callee, cc, fnv, args, rt, k)
		return
	}
	if callee != nil && callee.Blocks != nil && (inRepo(callee) || callee.Synthetic != "") && fx.canInline(callee, fr) {
		fx.note("inlined (no contract, loop-free): " + shortFn(callee.String()))
		fx.inline(st, fr, callee, fnv, args, rt, k)
		return
	}
	if isAssumedPure(key) {
		fx.note("assumed pure (no spec): " + shortFn(key))
		var res *Val
		if rt != nil {
			res = st.freshVal(rt, "r")
		}
		fx.externalErrors(callee, rt, res)
		k(st, res)
		return
	}
	// unknown code
	fx.note("unknown code, heap havocked: " + shortFn(key))
	fx.unknownCode(st)
	var res *Val
	if rt != nil {
		res = st.freshVal(rt, "r")
	}
	fx.externalErrors(callee, rt, res)
	k(st, res)
}

// externalErrors: a statically known function outside the module cannot return one of the module's own sentinel errors.
func (fx *FnCtx) externalErrors(callee *ssa.Function, rt types.Type, res *Val) {
	fx.externalErrorsK(callee, "", rt, res)
}

func (fx *FnCtx) externalErrorsK(callee *ssa.Function, key string, rt types.Type, res *Val) {
	unexportedOnly := false
	if callee == nil && strings.HasPrefix(key, "invoke ") && !strings.Contains(key, modulePath) {
		// interface declared outside the module (net, io, transport, stun): assumption A13
		unexportedOnly = true
	} else if callee == nil || inRepo(callee) {
		return
	}
	if res == nil || rt == nil {
		return
	}
	var errs []string
	if isErrorType(rt) {
		errs = append(errs, res.S)
	} else if tu, ok := rt.(*types.Tuple); ok {
		for i := 0; i < tu.Len() && i < len(res.Fs); i++ {
			if isErrorType(tu.At(i).Type()) {
				errs = append(errs, res.Fs[i].S)
			}
		}
	}
	hi := fx.eng.SentModEnd
	if unexportedOnly {
		hi = fx.eng.SentUnexpEnd
	}
	if hi <= 4096 {
		return
	}
	for _, e := range errs {
		if hasBoundVar(e) {
			continue
		}
		// not one of the module's sentinels, nor wrapping one (errors.Is(externalError, moduleSentinel) is false): A13
		fx.sol.Assert(tOr(tCmp("<", e, "4096"), tCmp(">=", e, fmt.Sprint(hi))))
		fx.errAxioms()
		fx.sol.Assert("(forall ((t Int)) (! (=> (and (>= t 4096) (< t " + fmt.Sprint(hi) + ")) (not (errIs " + e + " t))) :pattern ((errIs " + e + " t))))")
	}
}

func (fx *FnCtx) unknownCode(st *State) {
	st.havocAllKeepLocks()
}

func (st *State) havocAllKeepLocks() {
	keep := map[string]string{}
	for k, v := range st.heap {
		if strings.HasPrefix(k, "L|") || strings.HasPrefix(k, "R|") {
			keep[k] = v
		}
	}
	keepEp := map[string]int{}
	for k, v := range st.kep {
		if strings.HasPrefix(k, "L|") || strings.HasPrefix(k, "R|") {
			keepEp[k] = v
		}
	}
	var keepPre []prefixEpoch
	for _, pe := range st.kpre {
		if strings.HasPrefix(pe.p, "L|") || strings.HasPrefix(pe.p, "R|") {
			keepPre = append(keepPre, pe)
		}
	}
	st.havocAll()
	for k, v := range keep {
		st.heap[k] = v
	}
	for k, v := range keepEp {
		st.kep[k] = v
	}
	st.kpre = keepPre
}

func (fx *FnCtx) canInline(f *ssa.Function, fr *callFrame) bool {
	if fr.depth >= 5 {
		return false
	}
	n := 0
	for _, b := range f.Blocks {
		n += len(b.Instrs)
		for _, s := range b.Succs {
			if s.Dominates(b) {
				return false // loop
			}
		}
	}
	if n > 300 {
		return false
	}
	for p := fr; p != nil; p = nil {
		if p.fn == f {
			return false
		}
	}
	if fx.fn == f {
		return false
	}
	return true
}

func (fx *FnCtx) inline(st *State, fr *callFrame, callee *ssa.Function, fnv *Val, args []*Val, rt types.Type, k func(*State, *Val)) {
	if len(args) != len(callee.Params) {
		fx.unsupported("inline arity mismatch " + callee.String())
		var res *Val
		if rt != nil {
			res = st.freshVal(rt, "r")
		}
		st.havocAllKeepLocks()
		k(st, res)
		return
	}
	for i, p := range callee.Params {
		st.env[p] = args[i]
		delete(st.locs, p)
	}
	for i, fv := range callee.FreeVars {
		if fnv != nil && fnv.Clo != nil && i < len(fnv.Clo.bindings) {
			st.env[fv] = fnv.Clo.bindings[i]
		} else if fnv != nil {
			st.env[fv] = st.loadLoc(&Loc{Mem: true, Ref: fnv.S, Idx: "0", Root: "clo:" + shortFn(callee.String()) + ":" + fmt.Sprint(i), T: fv.Type()})
		}
	}
	fr2 := &callFrame{fn: callee, depth: fr.depth + 1, deferBase: len(st.defers)}
	fr2.ret = func(st2 *State, results []*Val) {
		var res *Val
		switch len(results) {
		case 0:
		case 1:
			res = results[0]
		default:
			res = &Val{K: KTuple, T: rt, Fs: results}
		}
		k(st2, res)
	}
	fx.execBlock(st, fr2, callee.Blocks[0], 0, nil)
}

// ---------- contracts at call sites ----------

func paramNames(callee *ssa.Function, cc *ssa.CallCommon) []string {
	var names []string
	if callee != nil {
		for _, p := range callee.Params {
			names = append(names, p.Name())
		}
		return names
	}
	sig := cc.Signature()
	if cc.IsInvoke() {
		names = append(names, "recv")
	}
	for i := 0; i < sig.Params().Len(); i++ {
		n := sig.Params().At(i).Name()
		if n == "" || n == "_" {
			n = fmt.Sprintf("arg%d", i)
		}
		names = append(names, n)
	}
	return names
}

func (fx *FnCtx) callEnv(st *State, old *State, callee *ssa.Function, cc *ssa.CallCommon, fnv *Val, args []*Val) *SpecEnv {
	env := &SpecEnv{fx: fx, st: st, old: old, vars: map[string]*Val{}}
	all := args
	if cc.IsInvoke() {
		all = append([]*Val{fnv}, args...)
	}
	names := paramNames(callee, cc)
	for i, a := range all {
		if i < len(names) {
			env.vars[names[i]] = a
		}
	}
	// positional aliases: recv (methods), arg0.. (non-receiver arguments)
	off := 0
	if cc.IsInvoke() || (callee != nil && callee.Signature.Recv() != nil) {
		if len(all) > 0 {
			env.vars["recv"] = all[0]
		}
		off = 1
	}
	for i := off; i < len(all); i++ {
		env.vars[fmt.Sprintf("arg%d", i-off)] = all[i]
	}
	if callee == nil && !cc.IsInvoke() && fnv != nil {
		env.vars["recv"] = fnv // dynamic call: the function value itself
	}
	if callee != nil {
		env.fn = callee
		if callee.Pkg != nil {
			env.pkg = callee.Pkg.Pkg
		} else if callee.Parent() != nil && callee.Parent().Pkg != nil {
			env.pkg = callee.Parent().Pkg.Pkg
		}
		for i, fv := range callee.FreeVars {
			if fnv != nil && fnv.Clo != nil && i < len(fnv.Clo.bindings) {
				b := fnv.Clo.bindings[i]
				env.freeVars = append(env.freeVars, freeVarBinding{fv.Name(), b, fv.Type()})
			}
		}
	} else if cc.IsInvoke() {
		if n, ok := cc.Value.Type().(*types.Named); ok && n.Obj().Pkg() != nil {
			env.pkg = n.Obj().Pkg()
		}
	}
	if env.pkg == nil && fx.fn.Pkg != nil {
		env.pkg = fx.fn.Pkg.Pkg
	}
	return env
}

func calleeShort(key string) string {
	s := shortFn(key)
	s = strings.TrimPrefix(s, "invoke ")
	s = strings.TrimPrefix(s, "field ")
	return s
}

func bindResults(env *SpecEnv, sig *types.Signature, res *Val) {
	n := sig.Results().Len()
	if n == 0 || res == nil {
		return
	}
	if n == 1 {
		env.vars["res"] = res
		env.vars["res0"] = res
		if nm := sig.Results().At(0).Name(); nm != "" && nm != "_" {
			env.vars[nm] = res
		}
		if isErrorType(sig.Results().At(0).Type()) {
			env.vars["err"] = res
		}
		return
	}
	for i := 0; i < n && i < len(res.Fs); i++ {
		env.vars[fmt.Sprintf("res%d", i)] = res.Fs[i]
		if nm := sig.Results().At(i).Name(); nm != "" && nm != "_" {
			env.vars[nm] = res.Fs[i]
		}
		if i == n-1 && isErrorType(sig.Results().At(i).Type()) {
			if _, has := env.vars["err"]; !has || sig.Results().At(i).Name() == "" {
				env.vars["err"] = res.Fs[i]
			}
		}
	}
}

func isErrorType(t types.Type) bool {
	n, ok := t.(*types.Named)
	return ok && n.Obj().Pkg() == nil && n.Obj().Name() == "error"
}

func (fx *FnCtx) applyContract(st *State, fr *callFrame, site ssa.Instruction, key string, con *Contract, callee *ssa.Function,
	cc *ssa.CallCommon, fnv *Val, args []*Val, rt types.Type, k func(*State, *Val)) {
	fx.note("contract used: " + shortFn(key) + ifs(con.External, " (assumed, external)", ""))
	pre := st.snapshot()
	env := fx.callEnv(st, pre, callee, cc, fnv, args)
	short := calleeShort(key)
	// implicit: pointer receivers are non-nil
	if callee != nil && callee.Signature.Recv() != nil && len(args) > 0 {
		if _, isPtr := callee.Signature.Recv().Type().Underlying().(*types.Pointer); isPtr {
			fx.oblige(st, fx.oname("pre", short+"][recv-nonnil"), "pre", nil, tNot(tEq(args[0].S, "0")))
		}
	}
	for _, r := range con.Requires {
		g := env.evalBool(r.E)
		fx.oblige(st, fx.oname("pre", short+"]"+r.Tag()), "pre", r, g)
	}
	// the callee may allocate
	nt := fx.fresh("top", "Int")
	fx.sol.Assert(tCmp(">=", nt, st.allocTop))
	st.allocTop = nt
	// frame
	if con.Iterates != "" {
		fx.iterateCallback(st, con, env, short)
	} else if con.Pure || (con.HasFrame && len(con.Assigns) == 0) {
		// nothing changes
	} else if !con.HasFrame {
		if fx.con != nil && fx.con.HasFrame {
			fx.checkFrameAll(st, short)
		}
		st.havocAllKeepLocks()
	} else {
		var tgts []*assignTarget
		for i, a := range con.Assigns {
			tgts = append(tgts, env.targets(a, con.AssignSrc[i])...)
		}
		for _, t := range tgts {
			fx.checkFrameTarget(st, t, short)
			fx.havocTarget(st, t)
		}
	}
	var res *Val
	if rt != nil {
		res = st.freshVal(rt, "r_"+sanitize(short))
	}
	env.st = st
	bindResults(env, cc.Signature(), res)
	fx.externalErrorsK(callee, key, rt, res)
	feasibleBefore := fx.sol.Feasible()
	for _, e := range con.Ensures {
		fx.sol.Assert(env.evalBool(e.E))
	}
	if feasibleBefore && len(con.Ensures) > 0 && !fx.sol.Feasible() {
		fx.unsupported("the assumed postcondition of " + short + " contradicts the caller's state (inconsistent contract)")
	}
	k(st, res)
}

func ifs(c bool, a, b string) string {
	if c {
		return a
	}
	return b
}

// atCalls checks the caller-side `at-call` clauses of the function under verification that name this callee.
func (fx *FnCtx) atCalls(st *State, key string, env *SpecEnv) {
	if fx.con == nil {
		return
	}
	for _, ac := range fx.con.AtCalls {
		if !calleeMatches(ac.Callee, key) {
			continue
		}
		// evaluated in the caller's scope, with recv/argN (and callee parameter names) bound
		cenv := fx.fnEnv(st, st.curPoint)
		for n, v := range env.vars {
			if n == "recv" || strings.HasPrefix(n, "arg") {
				cenv.vars[n] = v
			}
		}
		g := cenv.evalBool(ac.E)
		fx.exercised[ac] = true
		fx.oblige(st, fx.oname("at-call", calleeShort(key)+"]"+ac.Tag()), "at-call", &ac.Clause, g)
	}
}

var calleeRe = regexp.MustCompile(`^\(?(\*?)([\w./]*?)(\w+)\)?\.([\w$]+)$`)

func calleeMatches(pat, key string) bool {
	if pat == key {
		return true
	}
	if !strings.HasPrefix(pat, "invoke ") && !strings.HasPrefix(pat, "field ") && !strings.HasPrefix(key, "invoke ") && !strings.HasPrefix(key, "field ") {
		pm, km := calleeRe.FindStringSubmatch(pat), calleeRe.FindStringSubmatch(key)
		if pm != nil && km != nil && pm[1] == km[1] && pm[3] == km[3] && pm[4] == km[4] {
			q := strings.Trim(pm[2], "./")
			if q == "" || strings.Contains(km[2], q) {
				return true
			}
		}
	}
	k := calleeShort(key)
	p := calleeShort(pat)
	return k == p || strings.HasSuffix(k, "."+p) || strings.HasSuffix(k, ")."+p) || strings.HasSuffix(key, pat)
}

func (fx *FnCtx) checkFrameAll(st *State, callee string) {
	for _, t := range fx.frameTgts {
		if t.kind == "all" {
			return
		}
	}
	fx.oblige(st, fx.oname("frame", "call "+callee+" has no frame"), "frame", nil, "false")
}

func (fx *FnCtx) checkFrameTarget(st *State, t *assignTarget, callee string) {
	if fx.con == nil || !fx.con.HasFrame {
		return
	}
	var alts []string
	if t.ref != "" {
		alts = append(alts, tCmp(">=", t.ref, st.top0))
		if t.kind == "mem" {
			alts = append(alts, tEq(t.ref, "0"))
		}
	}
	for _, o := range fx.frameTgts {
		if o.kind == "all" {
			return
		}
		if o.kind == t.kind && o.kind == "ghost" && o.key == t.key {
			return
		}
		if o.kind == t.kind && o.key == t.key && t.ref != "" {
			alts = append(alts, tEq(t.ref, o.ref))
		}
		if o.kind == "obj" && t.kind == "field" && strings.HasPrefix(t.key, o.key) {
			alts = append(alts, tEq(t.ref, o.ref))
		}
		if (o.kind == "cell" || o.kind == "mem") && (t.kind == "cell" || t.kind == "mem") && strings.HasPrefix(t.key, strings.TrimSuffix(o.key, "|")) && t.ref != "" {
			alts = append(alts, tEq(t.ref, o.ref))
		}
	}
	fx.oblige(st, fx.oname("frame", "call "+callee+" assigns "+t.src), "frame", nil, tOr(alts...))
}

func (fx *FnCtx) havocTarget(st *State, t *assignTarget) {
	switch t.kind {
	case "all":
		st.havocAllKeepLocks()
	case "ghost":
		st.havocKey(t.key)
	case "field", "obj", "cell":
		st.storeLoc(t.loc, st.freshVal(t.loc.T, "hv"))
	case "mem":
		var ls []leaf
		leavesOf(t.elemT, "", &ls)
		for _, lf := range ls {
			if lf.arr {
				continue
			}
			key := "M|" + typeKey(t.elemT) + "|" + lf.path
			sort := heapSort(key, lf.sort)
			m := st.heapGet(key, sort)
			// the backing array of a nil slice (base 0) does not exist: nothing to havoc there
			st.heapSet(key, sort, tSto(m, t.ref, tIte(tEq(t.ref, "0"), tSel(m, "0"), fx.fresh("hvrow", "(Array Int "+lf.sort+")"))))
		}
	case "map":
		pk, nk := mapKeys(t.mapT)
		p := st.heapGet(pk, "(Array Int (Array Int Bool))")
		st.heapSet(pk, "(Array Int (Array Int Bool))", tSto(p, t.ref, fx.fresh("hvp", "(Array Int Bool)")))
		n := st.heapGet(nk, "(Array Int Int)")
		nn := fx.fresh("hvn", "Int")
		fx.sol.Assert(tCmp(">=", nn, "0"))
		st.heapSet(nk, "(Array Int Int)", tSto(n, t.ref, nn))
		var ls []leaf
		leavesOf(t.mapT.Elem(), "", &ls)
		for _, lf := range ls {
			if lf.arr {
				continue
			}
			key := "M|map:" + typeKey(t.mapT) + "|" + lf.path
			sort := heapSort(key, lf.sort)
			m := st.heapGet(key, sort)
			st.heapSet(key, sort, tSto(m, t.ref, fx.fresh("hvrow", "(Array Int "+lf.sort+")")))
		}
	}
}

func elemSortOf(arraySort string) string {
	// "(Array Int X)" -> X
	s := strings.TrimPrefix(arraySort, "(Array Int ")
	return strings.TrimSuffix(s, ")")
}

// ---------- go statements ----------

func (fx *FnCtx) goStmt(st *State, fr *callFrame, x *ssa.Go) {
	cc := &x.Call
	key := fx.calleeKey(cc, st)
	var args []*Val
	for _, a := range cc.Args {
		args = append(args, st.val(a))
	}
	var fnv *Val
	if _, isB := cc.Value.(*ssa.Builtin); !isB {
		fnv = st.val(cc.Value)
	}
	if fnv != nil && fnv.Clo != nil {
		key = fnv.Clo.fn
	}
	var callee *ssa.Function
	if f := cc.StaticCallee(); f != nil {
		callee = f
	} else if fnv != nil && fnv.Clo != nil {
		callee = fx.eng.Funcs[fnv.Clo.fn]
	}
	fx.note("go statement: " + shortFn(key) + " (spawned body verified separately if under contract)")
	if con := fx.eng.CS.Funcs[key]; con != nil {
		env := fx.callEnv(st, st.snapshot(), callee, cc, fnv, args)
		for _, r := range con.Requires {
			fx.oblige(st, fx.oname("pre", "go "+calleeShort(key)+"]"+r.Tag()), "pre", r, env.evalBool(r.E))
		}
		fx.atCalls(st, key, env)
	}
}

// iterateCallback models a callee that invokes a closure argument zero or more times (stun.Message.ForEach):
// the closure's precondition must hold now, is re-established by each invocation (obligation of the closure's own
// verification, contract marked `iterated`), and therefore holds afterwards; what the closure assigns is havocked.
func (fx *FnCtx) iterateCallback(st *State, con *Contract, env *SpecEnv, callee string) {
	cb := env.vars[con.Iterates]
	if cb == nil || cb.Clo == nil {
		fx.unsupported("iterates: callback argument " + con.Iterates + " of " + callee + " is not a known closure")
		st.havocAllKeepLocks()
		return
	}
	cfn := fx.eng.Funcs[cb.Clo.fn]
	ccon := fx.eng.CS.Funcs[cb.Clo.fn]
	if cfn == nil || ccon == nil || !ccon.Iterated {
		fx.unsupported("iterates: closure " + shortFn(cb.Clo.fn) + " needs a contract marked `iterated`")
		st.havocAllKeepLocks()
		return
	}
	mk := func(s *State, old *State) *SpecEnv {
		e := &SpecEnv{fx: fx, st: s, old: old, vars: map[string]*Val{}, fn: cfn}
		p := cfn
		for p.Parent() != nil {
			p = p.Parent()
		}
		if p.Pkg != nil {
			e.pkg = p.Pkg.Pkg
		}
		for _, prm := range cfn.Params {
			v := s.freshVal(prm.Type(), "cbarg_"+prm.Name())
			if _, isPtr := prm.Type().Underlying().(*types.Pointer); isPtr {
				fx.sol.Assert(tNot(tEq(v.S, "0")))
			}
			e.vars[prm.Name()] = v
		}
		for i, fv := range cfn.FreeVars {
			if i < len(cb.Clo.bindings) {
				e.freeVars = append(e.freeVars, freeVarBinding{fv.Name(), cb.Clo.bindings[i], fv.Type()})
			}
		}
		return e
	}
	pre := st.snapshot()
	e1 := mk(st, pre)
	for _, r := range ccon.Requires {
		fx.oblige(st, fx.oname("pre", "iterated "+shortFn(cb.Clo.fn)+"]"+r.Tag()), "pre", r, e1.evalBool(r.E))
	}
	if !ccon.HasFrame {
		st.havocAllKeepLocks()
	} else {
		for i, a := range ccon.Assigns {
			for _, t := range e1.targets(a, ccon.AssignSrc[i]) {
				fx.checkFrameTarget(st, t, callee)
				fx.havocTarget(st, t)
			}
		}
	}
	e2 := mk(st, pre)
	for _, r := range ccon.Requires {
		fx.sol.Assert(e2.evalBool(r.E))
	}
	fx.note("callback " + shortFn(cb.Clo.fn) + " invoked zero or more times by " + callee + " (its precondition is the loop invariant)")
}
