package main

// State merging at the join point (immediate post-dominator) of a conditional, to avoid the exponential number of
// paths through sequences of independent if-statements. Each side is executed under its own solver scope as before
// (obligations inside are checked there); states that reach the join point are captured together with everything that
// was assumed on their way, then merged: differing values become ite-terms over the branch conditions, and the
// disjunction of the captured assumption sets is asserted.

import (
	"fmt"
	"os"
	"strings"

	"golang.org/x/tools/go/ssa"
)

type capture struct {
	st    *State
	pc    string   // conjunction of the branch conditions since the split
	lines []string // everything asserted since the split (branch conditions and assumed facts)
}

// ipdoms computes immediate post-dominators of fn's blocks (virtual exit = all blocks without successors).
func (fx *FnCtx) ipdoms(fn *ssa.Function) map[*ssa.BasicBlock]*ssa.BasicBlock {
	if m, ok := fx.ipdomCache[fn]; ok {
		return m
	}
	n := len(fn.Blocks)
	// pdom sets as bool matrices
	pd := make([][]bool, n)
	isExit := make([]bool, n)
	for i, b := range fn.Blocks {
		pd[i] = make([]bool, n)
		if len(b.Succs) == 0 {
			isExit[i] = true
			pd[i][i] = true
		} else {
			for j := range pd[i] {
				pd[i][j] = true
			}
		}
	}
	changed := true
	for changed {
		changed = false
		for i := n - 1; i >= 0; i-- {
			b := fn.Blocks[i]
			if isExit[i] {
				continue
			}
			nw := make([]bool, n)
			for j := range nw {
				nw[j] = true
			}
			for _, s := range b.Succs {
				for j := range nw {
					nw[j] = nw[j] && pd[s.Index][j]
				}
			}
			nw[i] = true
			for j := range nw {
				if nw[j] != pd[i][j] {
					changed = true
				}
			}
			pd[i] = nw
		}
	}
	res := map[*ssa.BasicBlock]*ssa.BasicBlock{}
	for i, b := range fn.Blocks {
		// immediate post-dominator: the strict post-dominator that is post-dominated by all other strict post-dominators
		var cands []int
		for j := 0; j < n; j++ {
			if j != i && pd[i][j] {
				cands = append(cands, j)
			}
		}
		for _, c := range cands {
			ok := true
			for _, d := range cands {
				if d != c && !pd[c][d] {
					ok = false
					break
				}
			}
			if ok {
				res[b] = fn.Blocks[c]
				break
			}
		}
	}
	fx.ipdomCache[fn] = res
	return res
}

// joinOf returns the first block reachable from both successors of the conditional at b (ignoring loop back edges):
// the point where the two sides meet again, even when some paths inside them return early.
func (fx *FnCtx) joinOf(fn *ssa.Function, b *ssa.BasicBlock) *ssa.BasicBlock {
	key := joinKey{fn, b}
	if j, ok := fx.joinCache[key]; ok {
		return j
	}
	reach := func(from *ssa.BasicBlock) map[*ssa.BasicBlock]bool {
		seen := map[*ssa.BasicBlock]bool{}
		stack := []*ssa.BasicBlock{from}
		for len(stack) > 0 {
			x := stack[len(stack)-1]
			stack = stack[:len(stack)-1]
			if seen[x] {
				continue
			}
			seen[x] = true
			for _, s := range x.Succs {
				if s.Dominates(x) {
					continue // back edge
				}
				stack = append(stack, s)
			}
		}
		return seen
	}
	var res *ssa.BasicBlock
	if len(b.Succs) == 2 {
		r0, r1 := reach(b.Succs[0]), reach(b.Succs[1])
		var common []*ssa.BasicBlock
		for x := range r0 {
			if r1[x] {
				common = append(common, x)
			}
		}
		// minimal elements w.r.t. reachability
		for _, c := range common {
			minimal := true
			for _, d := range common {
				if d != c && reach(d)[c] {
					minimal = false
					break
				}
			}
			if minimal && (res == nil || c.Index < res.Index) {
				res = c
			}
		}
	}
	fx.joinCache[key] = res
	return res
}

type joinKey struct {
	fn *ssa.Function
	b  *ssa.BasicBlock
}

func firstNonPhi(b *ssa.BasicBlock) int {
	for i, ins := range b.Instrs {
		if _, ok := ins.(*ssa.Phi); !ok {
			return i
		}
	}
	return len(b.Instrs)
}

// arrive is called when execution reaches block j from pred (instead of entering it directly).
// Returns true if the state was captured for a pending merge.
func (fx *FnCtx) arriveCapture(st *State, fr *callFrame, j, pred *ssa.BasicBlock) bool {
	if fr.stopAt != j || fr.caps == nil {
		return false
	}
	// resolve phis for this predecessor now
	for _, ins := range j.Instrs {
		phi, ok := ins.(*ssa.Phi)
		if !ok {
			break
		}
		for i, p := range j.Preds {
			if p == pred {
				st.env[phi] = st.val(phi.Edges[i])
				if l, ok := st.locs[phi.Edges[i]]; ok {
					st.locs[phi] = l
				} else {
					delete(st.locs, phi)
				}
			}
		}
	}
	var lines []string
	for _, f := range fx.sol.frames[fr.capDepth:] {
		lines = append(lines, f.lines...)
	}
	pc := tAnd(st.conds[fr.capConds:]...)
	*fr.caps = append(*fr.caps, &capture{st: st, pc: pc, lines: lines})
	return true
}

func stripAssert(l string) (string, bool) {
	if strings.HasPrefix(l, "(assert ") && strings.HasSuffix(l, ")") {
		return l[8 : len(l)-1], true
	}
	return "", false
}

// mergeStates merges captured states; returns nil if they cannot be merged (then the caller continues each separately).
func (fx *FnCtx) mergeStates(caps []*capture, prefixConds []string) *State {
	base := caps[0].st
	for _, c := range caps[1:] {
		if len(c.st.defers) != len(base.defers) {
			return nil
		}
		for i := range c.st.defers {
			if c.st.defers[i] != base.defers[i] {
				return nil
			}
		}
	}
	m := base.clone()
	m.conds = append([]string{}, prefixConds...)
	var pcs []string
	for _, c := range caps {
		pcs = append(pcs, c.pc)
	}
	m.conds = append(m.conds, tOr(pcs...))
	if len(caps) == 1 {
		return m
	}
	pick := func(terms []string) string {
		r := terms[len(terms)-1]
		for i := len(terms) - 2; i >= 0; i-- {
			r = tIte(caps[i].pc, terms[i], r)
		}
		return r
	}
	same := func(terms []string) bool {
		for _, t := range terms[1:] {
			if t != terms[0] {
				return false
			}
		}
		return true
	}
	// environment
	for k, v0 := range base.env {
		vals := []*Val{v0}
		ok := true
		for _, c := range caps[1:] {
			v, has := c.st.env[k]
			if !has {
				ok = false
				break
			}
			vals = append(vals, v)
		}
		if !ok {
			delete(m.env, k)
			continue
		}
		allSame := true
		for _, v := range vals[1:] {
			if v != v0 {
				allSame = false
			}
		}
		if allSame {
			continue
		}
		var flats [][]string
		shapeOK := true
		for _, v := range vals {
			var xs []string
			v.flat(&xs)
			flats = append(flats, xs)
			if len(xs) != len(flats[0]) || v.K != v0.K {
				shapeOK = false
			}
		}
		if !shapeOK || v0.T == nil {
			delete(m.env, k)
			continue
		}
		out := make([]string, len(flats[0]))
		for i := range out {
			var ts []string
			for _, f := range flats {
				ts = append(ts, f[i])
			}
			if same(ts) {
				out[i] = ts[0]
			} else {
				out[i] = pick(ts)
			}
		}
		idx := 0
		nv := unflat(v0.T, out, &idx)
		nv.Org = v0.Org
		nv.Clo = v0.Clo
		for _, v := range vals[1:] {
			if v.Org != v0.Org {
				nv.Org = ""
			}
			if v.Clo != v0.Clo {
				nv.Clo = nil
			}
		}
		m.env[k] = nv
	}
	for k, l0 := range base.locs {
		for _, c := range caps[1:] {
			l, has := c.st.locs[k]
			if !has || (l != l0 && *l != *l0) {
				delete(m.locs, k)
				break
			}
		}
	}
	// heap: union of keys
	keys := map[string]bool{}
	sameEpoch := true
	for _, c := range caps {
		for k := range c.st.heap {
			keys[k] = true
		}
		if c.st.epoch != base.epoch || len(c.st.kpre) != len(base.kpre) {
			sameEpoch = false
		}
	}
	if sameEpoch {
		for _, c := range caps[1:] {
			for i, pe := range c.st.kpre {
				if base.kpre[i] != pe {
					sameEpoch = false
				}
			}
		}
	}
	for k := range keys {
		sort, ok := fx.keySorts[k]
		if !ok {
			continue
		}
		var ts []string
		for _, c := range caps {
			ts = append(ts, c.st.heapGet(k, sort))
		}
		if same(ts) {
			m.heap[k] = ts[0]
		} else {
			m.heap[k] = pick(ts)
		}
		if os.Getenv("TVDBG2") != "" && strings.Contains(k, "authOK") {
			fmt.Fprintf(os.Stderr, "MERGE %s -> %v => %s\n", k, ts, m.heap[k])
		}
	}
	if !sameEpoch {
		// keys not materialised above are unknown in the merged state from here on
		fx.nfresh++
		m.epoch = fx.nfresh
		m.kep = map[string]int{}
		m.kpre = nil
	} else {
		// same base epoch on all paths: never-touched keys keep their identity; keys havocked on some path only
		// (and never read, so not materialised) are unknown from here on
		allk := map[string]bool{}
		for _, c := range caps {
			for k := range c.st.kep {
				allk[k] = true
			}
		}
		m.kep = map[string]int{}
		for k := range allk {
			if _, mat := m.heap[k]; mat {
				continue
			}
			if sort := fx.knownSort(k); sort != "" {
				var ts []string
				for _, c := range caps {
					ts = append(ts, c.st.heapGet(k, sort))
				}
				if same(ts) {
					m.heap[k] = ts[0]
				} else {
					m.heap[k] = pick(ts)
				}
				continue
			}
			v0, ok0 := base.kep[k]
			agree := ok0
			for _, c := range caps[1:] {
				if v, ok := c.st.kep[k]; !ok || v != v0 {
					agree = false
				}
			}
			if agree {
				m.kep[k] = v0
			} else {
				fx.nfresh++
				m.kep[k] = fx.nfresh
			}
		}
	}
	var tops []string
	for _, c := range caps {
		tops = append(tops, c.st.allocTop)
	}
	if !same(tops) {
		nt := fx.fresh("top", "Int")
		for _, t := range tops {
			fx.sol.Assert(tCmp(">=", nt, t))
		}
		m.allocTop = nt
	}
	for _, c := range caps[1:] {
		if c.st.fuel < m.fuel {
			m.fuel = c.st.fuel
		}
	}
	m.path = append(m.path, -len(caps))
	return m
}

// assertCaptured re-asserts, in the current scope, what was assumed on the captured paths: the disjunction of their
// path conditions, and every assumed fact guarded by the path condition of the path it was assumed on.
func (fx *FnCtx) assertCaptured(caps []*capture) {
	var pcs []string
	for _, c := range caps {
		pcs = append(pcs, c.pc)
	}
	fx.sol.Assert(tOr(pcs...))
	for _, c := range caps {
		for _, l := range c.lines {
			t, ok := stripAssert(l)
			if !ok {
				continue
			}
			if len(caps) == 1 {
				fx.sol.Assert(t)
			} else {
				fx.sol.Assert(tImp(c.pc, t))
			}
		}
	}
}

var _ = fmt.Sprint

// knownSort: SMT sort of ghost / model heap keys that can be determined without having been read before.
func (fx *FnCtx) knownSort(k string) string {
	if s, ok := fx.keySorts[k]; ok {
		return s
	}
	if strings.HasPrefix(k, "G|") {
		if g, ok := fx.eng.CS.GVars[k[2:]]; ok {
			return g.Sort
		}
	}
	switch k {
	case "T|dur", "T|fn":
		return "(Array Int Int)"
	case "T|armed", "X|closed":
		return "(Array Int Bool)"
	case "T|now":
		return "Int"
	}
	return ""
}
