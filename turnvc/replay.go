package main

// Replay of verifier counterexamples on the real code (go test -overlay; nothing is written into /repo).

func replayObligation(e *Engine, fr *FnResult, o *Obligation, rep map[string]any, verifDir string) (bool, string) {
	return false, ""
}
