package main

// Replay of verifier counterexamples on the real code. The model's inputs are fed to the real function through a
// generated in-package test injected with `go test -overlay` (nothing is written into /repo); the outputs are read
// back and the violated clause is evaluated on the concrete input/output pair (by the same SMT translation, with all
// inputs and outputs fixed to constants). Supported: plain functions whose parameters are integers, booleans and byte
// slices and whose results are integers, booleans and errors, for postcondition clauses free of ghost functions.

import (
	"encoding/json"
	"fmt"
	"go/types"
	"os"
	"os/exec"
	"path/filepath"
	"sort"
	"strings"
	"time"

	"golang.org/x/tools/go/ssa"
)

func replayObligation(e *Engine, fr *FnResult, o *Obligation, rep map[string]any, verifDir string) (bool, string) {
	if o.Inputs == nil || (o.Kind != "post" && o.Kind != "safety") {
		return false, ""
	}
	var fn *ssa.Function
	for k, f := range e.Funcs {
		if shortFn(k) == fr.Func {
			fn = f
		}
	}
	if fn == nil || fn.Signature.Recv() != nil || fn.Pkg == nil || fn.Parent() != nil {
		return false, "replay: only plain package-level functions are replayed automatically"
	}
	con := e.CS.Funcs[fn.String()]
	if con == nil {
		return false, ""
	}
	var clause *Clause
	for _, c := range con.Ensures {
		if fx0name(fn, c) == o.Name {
			clause = c
		}
	}
	if clause == nil && o.Kind != "safety" {
		return false, "replay: clause not found"
	}
	// build the call
	var args []string
	type pin struct {
		name string
		t    types.Type
		ival string
		bval []int
	}
	var pins []pin
	for _, p := range fn.Params {
		switch {
		case isIntegerT(p.Type()):
			v, ok := o.Inputs.Scalars[p.Name()]
			if !ok {
				return false, "replay: model has no value for " + p.Name()
			}
			n, okn := isNum(v)
			if !okn {
				return false, "replay: non-numeric model value"
			}
			args = append(args, fmt.Sprintf("%s(%s)", types.TypeString(p.Type(), types.RelativeTo(fn.Pkg.Pkg)), n.String()))
			pins = append(pins, pin{name: p.Name(), t: p.Type(), ival: num(n)})
		case kindOf(p.Type()) == KBool:
			v := o.Inputs.Scalars[p.Name()]
			args = append(args, v)
			pins = append(pins, pin{name: p.Name(), t: p.Type(), ival: v})
		case kindOf(p.Type()) == KSlice && typeKey(p.Type().Underlying().(*types.Slice).Elem()) == "uint8":
			bs, ok := o.Inputs.Bytes[p.Name()]
			if !ok || len(bs) > 70000 {
				return false, "replay: no byte contents in the model for " + p.Name()
			}
			var xs []string
			for _, b := range bs {
				xs = append(xs, fmt.Sprint(b))
			}
			lit := "[]byte{" + strings.Join(xs, ",") + "}"
			if ln, ok := isNum(o.Inputs.Scalars[p.Name()+".l"]); ok && ln.Sign() == 0 && o.Inputs.Scalars[p.Name()+".b"] == "0" {
				lit = "[]byte(nil)"
			}
			args = append(args, lit)
			pins = append(pins, pin{name: p.Name(), t: p.Type(), bval: bs})
		default:
			return false, "replay: parameter type " + p.Type().String() + " not supported"
		}
	}
	res := fn.Signature.Results()
	var lhs []string
	var dump []string
	var sentinels []string
	for name := range e.Sentinels {
		if strings.HasPrefix(name, fn.Pkg.Pkg.Path()+".") {
			sentinels = append(sentinels, strings.TrimPrefix(name, fn.Pkg.Pkg.Path()+"."))
		}
	}
	sort.Strings(sentinels)
	for i := 0; i < res.Len(); i++ {
		lhs = append(lhs, fmt.Sprintf("r%d", i))
		rt := res.At(i).Type()
		switch {
		case isErrorType(rt):
			dump = append(dump, fmt.Sprintf(`out["res%d"] = zzErrName(r%d)`, i, i))
		case isIntegerT(rt), kindOf(rt) == KBool:
			dump = append(dump, fmt.Sprintf(`out["res%d"] = r%d`, i, i))
		default:
			return false, "replay: result type " + rt.String() + " not supported"
		}
	}
	var cases []string
	for _, s := range sentinels {
		cases = append(cases, fmt.Sprintf("\tif err == %s {\n\t\treturn %q\n\t}\n", s, s))
	}
	tmp, err := os.MkdirTemp("", "turnvc-replay-")
	if err != nil {
		return false, err.Error()
	}
	defer os.RemoveAll(tmp)
	outFile := filepath.Join(tmp, "out.json")
	src := fmt.Sprintf(`package %s

import (
	"encoding/json"
	"os"
	"testing"
)

func zzErrName(err error) string {
	if err == nil {
		return "nil"
	}
%s	return "other"
}

func TestZZTurnvcReplay(t *testing.T) {
	%s := %s(%s)
	out := map[string]any{}
	%s
	b, _ := json.Marshal(out)
	_ = os.WriteFile(%q, b, 0o644)
}
`, fn.Pkg.Pkg.Name(), strings.Join(cases, ""), strings.Join(lhs, ", "), fn.Name(), strings.Join(args, ", "), strings.Join(dump, "\n\t"), outFile)
	if res.Len() == 0 {
		return false, "replay: function has no results"
	}
	pkgDir := e.RepoDir
	if rel := strings.TrimPrefix(fn.Pkg.Pkg.Path(), modulePath); rel != "" {
		pkgDir = filepath.Join(e.RepoDir, rel)
	}
	testFile := filepath.Join(tmp, "zz_turnvc_replay_test.go")
	os.WriteFile(testFile, []byte(src), 0o644)
	ov := map[string]any{"Replace": map[string]string{filepath.Join(pkgDir, "zz_turnvc_replay_test.go"): testFile}}
	ovb, _ := json.Marshal(ov)
	ovFile := filepath.Join(tmp, "overlay.json")
	os.WriteFile(ovFile, ovb, 0o644)
	cmd := exec.Command("bash", "-c", fmt.Sprintf("ulimit -v 4000000; cd %s && go test -overlay %s -vet=off -count=1 -timeout 60s -run '^TestZZTurnvcReplay$' .", pkgDir, ovFile))
	cmd.Env = append(os.Environ(), "GOFLAGS=-mod=mod", "GOPROXY=off")
	done := make(chan struct{})
	var outb []byte
	go func() { outb, _ = cmd.CombinedOutput(); close(done) }()
	select {
	case <-done:
	case <-time.After(120 * time.Second):
		if cmd.Process != nil {
			cmd.Process.Kill()
		}
		rep["replay_hung"] = true
		rep["replay_test_source"] = src
		return true, "the real function did not return within 120 s on the model's inputs (non-termination reproduced)"
	}
	rep["replay_test_source"] = src
	rep["replay_go_test_output"] = firstLines(string(outb), 12)
	data, err := os.ReadFile(outFile)
	if err != nil {
		if strings.Contains(string(outb), "panic:") {
			return true, "the real function panicked on the model's inputs: " + firstLines(string(outb), 6)
		}
		return false, "replay: the generated test did not produce outputs: " + firstLines(string(outb), 4)
	}
	var outs map[string]any
	json.Unmarshal(data, &outs)
	rep["replay_outputs"] = outs
	if o.Kind == "safety" {
		return false, "replay: the real function returned normally on the model's inputs (the run-time failure did not reproduce; slice capacities of the model may not be reproducible by a literal)"
	}
	// evaluate the clause on the concrete pair
	fx := &FnCtx{eng: e, fn: fn, con: con, obls: map[string]*Obligation{}, heapSorts: map[string]string{}, unsup: map[string]bool{}, notes: map[string]bool{},
		params: map[string]*Val{}, keySorts: map[string]string{}, locksTouched: map[string]bool{}, covers: map[string]bool{}, exercised: map[*AtCall]bool{}, ipdomCache: map[*ssa.Function]map[*ssa.BasicBlock]*ssa.BasicBlock{}, joinCache: map[joinKey]*ssa.BasicBlock{}, loops: map[*ssa.BasicBlock]*loopInfo{}}
	fx.sol = NewSolver(10000)
	defer fx.sol.Close()
	st := &State{fx: fx, env: map[ssa.Value]*Val{}, locs: map[ssa.Value]*Loc{}, heap: map[string]string{}, kep: map[string]int{}}
	fx.sol.DeclareConst("top0", "Int")
	fx.sol.Assert("(= top0 16384)")
	st.allocTop, st.top0 = "top0", "top0"
	base := 100
	for _, p := range pins {
		if p.bval != nil {
			base++
			v := &Val{K: KSlice, T: p.t, B: fmt.Sprint(base), O: "0", L: fmt.Sprint(len(p.bval)), C: fmt.Sprint(len(p.bval))}
			if len(p.bval) == 0 {
				v.B = "0"
			}
			m := st.heapGet("M|uint8|", "(Array Int (Array Int Int))")
			for i, b := range p.bval {
				fx.sol.Assert(tEq(tSel(tSel(m, v.B), fmt.Sprint(i)), fmt.Sprint(b)))
			}
			fx.params[p.name] = v
		} else if kindOf(p.t) == KBool {
			fx.params[p.name] = mkBool(p.ival)
		} else {
			fx.params[p.name] = mkInt(p.ival, p.t)
		}
	}
	fx.entry = st.snapshot()
	env := fx.fnEnv(st, point{nil, 0})
	env.useLocals = false
	var rvals []*Val
	for i := 0; i < res.Len(); i++ {
		rt := res.At(i).Type()
		x := outs[fmt.Sprintf("res%d", i)]
		switch {
		case isErrorType(rt):
			s, _ := x.(string)
			switch s {
			case "nil":
				rvals = append(rvals, mkInt("0", rt))
			case "other":
				rvals = append(rvals, mkInt("9999", rt))
			default:
				rvals = append(rvals, mkInt(fmt.Sprint(e.Sentinels[fn.Pkg.Pkg.Path()+"."+s]), rt))
			}
		case kindOf(rt) == KBool:
			b, _ := x.(bool)
			rvals = append(rvals, mkBool(fmt.Sprint(b)))
		default:
			f, _ := x.(float64)
			rvals = append(rvals, mkInt(numI(int64(f)), rt))
		}
	}
	var rv *Val
	if len(rvals) == 1 {
		rv = rvals[0]
	} else {
		rv = &Val{K: KTuple, T: res, Fs: rvals}
	}
	bindResults(env, fn.Signature, rv)
	goal := env.evalBool(clause.E)
	if len(fx.unsup) > 0 || strings.Contains(goal, "(g_") {
		return false, "replay: clause mentions ghost functions or unsupported terms; outputs recorded but not judged"
	}
	r := fx.sol.CheckNeg(goal, nil)
	rep["replay_clause_on_concrete_pair"] = map[string]any{"clause": clause.Src, "verdict": r.Status}
	if r.Status == "sat" {
		// with everything fixed to constants "sat" means the clause is false for this input/output pair
		return true, fmt.Sprintf("real %s(%s) returned %v, which violates: %s", fn.Name(), strings.Join(args, ", "), outs, clause.Src)
	}
	return false, "replay: the real code satisfies the clause on the model's inputs (the model did not reproduce)"
}

func fx0name(fn *ssa.Function, c *Clause) string {
	return shortFn(fn.String()) + "/post[" + strings.Trim(c.Tag(), "[]") + "]"
}
